package props

import (
	"context"
	"fmt"
	"math"
	"runtime/debug"
	"sort"
	"strings"

	"github.com/paulmach/orb"
	"github.com/paulmach/osm"
	"github.com/paulmach/osm/annotate"
	"github.com/paulmach/osm/osmgeojson"

	"verif/internal/fw"
	"verif/internal/gen"
	"verif/internal/polyg"
)

// C16 — multipolygon assembly recovers the original rings for any split and order.
//
// Monitor shape: ground truths come from internal/polyg (own exact geometry); the library is
// observed only through osmgeojson.Convert (geometry of the relation feature) and
// annotate.Relations (Member.Orientation). The oracle never joins rings itself: it looks every
// returned coordinate up in the truth's vertex table and checks cyclic order, closure,
// winding (own signed area on the integer grid) and hole ownership.

type c16Variant struct {
	name               string
	onWayNodes, orient bool
	coord              string // coordinate form when it is neither N nor W (see polyg.OSMForm)
}

func (v c16Variant) form() string {
	switch {
	case v.coord != "":
		return v.coord
	case v.onWayNodes:
		return "W"
	}
	return "N"
}

// further coordinate forms, converted for every input: located way nodes without refs (Z), paths
// embedded in the members with the ways absent (M with refs, MZ without), MZ also fully annotated
var c16MoreForms = []c16Variant{
	{"Z", true, false, "Z"}, {"M", true, false, "M"}, {"MZ", true, false, "MZ"}, {"MZO", true, true, "MZ"},
}

// two more variants, NP / WP, are added per input: only a subset of the members is annotated

var c16Variants = []c16Variant{
	{"N", false, false, ""}, // node objects, no orientation
	{"W", true, false, ""},  // annotated way nodes, no orientation
	{"NO", false, true, ""}, // node objects, members carry orientation
	{"WO", true, true, ""},  // annotated way nodes, members carry orientation
}

type c16Obs struct {
	polys    [][]orb.Ring // polygons of the single polygonal feature
	gtype    string
	nPoly    int // polygonal features in the collection
	nOther   int // other features (not asserted)
	err      error
	panicked string
}

func c16Convert(o *osm.OSM) (obs c16Obs) {
	defer func() {
		if x := recover(); x != nil {
			obs.panicked = fmt.Sprintf("%v\n%s", x, debug.Stack())
		}
	}()
	fc, err := osmgeojson.Convert(o)
	if err != nil {
		obs.err = err
		return
	}
	for _, f := range fc.Features {
		switch g := f.Geometry.(type) {
		case orb.Polygon:
			obs.nPoly++
			obs.gtype = "Polygon"
			obs.polys = [][]orb.Ring{[]orb.Ring(g)}
		case orb.MultiPolygon:
			obs.nPoly++
			obs.gtype = "MultiPolygon"
			obs.polys = nil
			for _, p := range g {
				obs.polys = append(obs.polys, []orb.Ring(p))
			}
		default:
			obs.nOther++
		}
	}
	return
}

type c16Issue struct {
	Class string `json:"class"`
	What  string `json:"what"`
}

type c16RingRef struct{ poly, ring int }

// c16ClassifyRing decides which truth ring an observed ring is, by looking its points up in
// the vertex table. ok is false when the ring is not exactly that truth ring (issues say why).
func c16ClassifyRing(in *polyg.Instance, lookup map[orb.Point]int, ring orb.Ring, wantOuter bool, where string, issues *[]c16Issue) (ref c16RingRef, ok bool) {
	add := func(class, format string, a ...any) {
		*issues = append(*issues, c16Issue{class, where + ": " + fmt.Sprintf(format, a...)})
	}
	kind := "inner"
	if wantOuter {
		kind = "outer"
	}
	if len(ring) == 0 {
		add(kind+"-empty", "ring without coordinates")
		return ref, false
	}
	// every coordinate must be one of the truth
	idx := make([]int, len(ring))
	for i, p := range ring {
		vi, found := lookup[p]
		if !found {
			add("coordinate-invented", "point %v is no vertex of the truth", p)
			return ref, false
		}
		idx[i] = vi
	}
	if len(ring) < 2 || ring[0] != ring[len(ring)-1] {
		add("ring-not-closed", "first point %v, last point %v (%d points)", ring[0], ring[len(ring)-1], len(ring))
		return ref, false
	}
	body := idx[:len(idx)-1]
	v0 := in.Verts[body[0]]
	ref = c16RingRef{v0.Poly, v0.Ring}
	n := len(in.T.Polys[ref.poly].Ring(ref.ring))
	count := map[int]int{}
	for _, vi := range body {
		v := in.Verts[vi]
		if v.Poly != ref.poly || v.Ring != ref.ring {
			add("rings-mixed", "ring mixes vertices of truth ring %d/%d and %d/%d", ref.poly, ref.ring, v.Poly, v.Ring)
			return ref, false
		}
		count[vi]++
	}
	for vi, c := range count {
		if c > 1 {
			add("coordinate-duplicated", "vertex %v occurs %d times in the ring of truth ring %d/%d", in.Verts[vi].P, c, ref.poly, ref.ring)
			return ref, false
		}
	}
	if len(count) < n {
		add("coordinate-lost", "ring has %d of the %d vertices of truth ring %d/%d", len(count), n, ref.poly, ref.ring)
		return ref, false
	}
	// own winding: signed area on the integer grid
	pts := make([]polyg.Pt, len(body))
	for i, vi := range body {
		pts[i] = in.Verts[vi].P
	}
	area := polyg.Area2(pts)
	// cyclic sequence: truth rings are stored outer CCW / hole CW, so the observed ring must
	// step forwards through the truth positions
	fwd, bwd := true, true
	for i := range body {
		a, b := in.Verts[body[i]].Pos, in.Verts[body[(i+1)%len(body)]].Pos
		if b != (a+1)%n {
			fwd = false
		}
		if a != (b+1)%n {
			bwd = false
		}
	}
	isOuter := ref.ring == 0
	switch {
	case !fwd && !bwd:
		add("vertex-order", "vertices of truth ring %d/%d are not in the ring's cyclic order", ref.poly, ref.ring)
		return ref, false
	case isOuter && (area <= 0 || !fwd):
		add("outer-not-ccw", "truth outer %d comes out clockwise (2*area=%d)", ref.poly, area)
		return ref, false
	case !isOuter && (area >= 0 || !fwd):
		add("inner-not-cw", "truth hole %d/%d comes out counter-clockwise (2*area=%d)", ref.poly, ref.ring, area)
		return ref, false
	}
	return ref, true
}

// c16Judge compares one observation with the truth. It returns the issues found (empty: ok).
func c16Judge(in *polyg.Instance, lookup map[orb.Point]int, obs c16Obs) []c16Issue {
	var issues []c16Issue
	if obs.panicked != "" {
		return []c16Issue{{"panic", "Convert panicked: " + obs.panicked}}
	}
	if obs.err != nil {
		return []c16Issue{{"convert-error", "Convert returned an error: " + obs.err.Error()}}
	}
	if obs.nPoly != 1 {
		return []c16Issue{{fmt.Sprintf("feature-count-%d", c16Cap(obs.nPoly, 2)), fmt.Sprintf("%d polygonal features in the collection, want exactly 1", obs.nPoly)}}
	}
	T := in.T
	if len(T.Polys) > 1 && obs.gtype != "MultiPolygon" {
		issues = append(issues, c16Issue{"geometry-type", fmt.Sprintf("%d outers but geometry is %s", len(T.Polys), obs.gtype)})
	}
	seenOuter := map[int]int{}
	seenHole := map[c16RingRef]int{}
	for pi, poly := range obs.polys {
		if len(poly) == 0 {
			issues = append(issues, c16Issue{"polygon-empty", fmt.Sprintf("polygon %d has no rings", pi)})
			continue
		}
		oref, ok := c16ClassifyRing(in, lookup, poly[0], true, fmt.Sprintf("polygon %d outer", pi), &issues)
		if !ok {
			continue
		}
		if oref.ring != 0 {
			issues = append(issues, c16Issue{"hole-as-outer", fmt.Sprintf("polygon %d: its outer ring is truth hole %d/%d", pi, oref.poly, oref.ring)})
			continue
		}
		seenOuter[oref.poly]++
		for hi := 1; hi < len(poly); hi++ {
			href, ok := c16ClassifyRing(in, lookup, poly[hi], false, fmt.Sprintf("polygon %d hole %d", pi, hi), &issues)
			if !ok {
				continue
			}
			switch {
			case href.ring == 0:
				issues = append(issues, c16Issue{"outer-as-hole", fmt.Sprintf("polygon %d lists truth outer %d as a hole", pi, href.poly)})
			case href.poly != oref.poly:
				issues = append(issues, c16Issue{"hole-misassigned", fmt.Sprintf("hole %d/%d of the truth was put into outer %d", href.poly, href.ring, oref.poly)})
			default:
				seenHole[href]++
			}
		}
	}
	for pi := range T.Polys {
		switch c := seenOuter[pi]; {
		case c == 0:
			issues = append(issues, c16Issue{"outer-missing", fmt.Sprintf("truth outer %d is not an outer ring of the result", pi)})
		case c > 1:
			issues = append(issues, c16Issue{"outer-repeated", fmt.Sprintf("truth outer %d appears %d times", pi, c)})
		}
		for h := 1; h <= len(T.Polys[pi].Holes); h++ {
			switch c := seenHole[c16RingRef{pi, h}]; {
			case c == 0:
				issues = append(issues, c16Issue{"hole-missing", fmt.Sprintf("truth hole %d/%d is not a hole of its outer", pi, h)})
			case c > 1:
				issues = append(issues, c16Issue{"hole-repeated", fmt.Sprintf("truth hole %d/%d appears %d times", pi, h, c)})
			}
		}
	}
	return issues
}

func c16Cap(v, hi int) int {
	if v > hi {
		return hi
	}
	return v
}

// c16Canon renders the geometry up to the documented freedom: ring start vertex, order of the
// holes inside a polygon and order of the polygons. Direction, closure and the vertex
// sequence are kept as they are.
func c16Canon(polys [][]orb.Ring) string {
	ringStr := func(r orb.Ring) string {
		if len(r) >= 2 && r[0] == r[len(r)-1] {
			body := r[:len(r)-1]
			best := ""
			for s := range body {
				var sb strings.Builder
				sb.WriteString("closed")
				for i := range body {
					p := body[(s+i)%len(body)]
					fmt.Fprintf(&sb, " %x,%x", math.Float64bits(p[0]), math.Float64bits(p[1]))
				}
				if best == "" || sb.String() < best {
					best = sb.String()
				}
			}
			if best == "" {
				best = "closed"
			}
			return best
		}
		var sb strings.Builder
		sb.WriteString("open")
		for _, p := range r {
			fmt.Fprintf(&sb, " %x,%x", math.Float64bits(p[0]), math.Float64bits(p[1]))
		}
		return sb.String()
	}
	var ps []string
	for _, poly := range polys {
		if len(poly) == 0 {
			ps = append(ps, "()")
			continue
		}
		var hs []string
		for _, h := range poly[1:] {
			hs = append(hs, ringStr(h))
		}
		sort.Strings(hs)
		ps = append(ps, "("+ringStr(poly[0])+" | "+strings.Join(hs, " | ")+")")
	}
	sort.Strings(ps)
	return strings.Join(ps, "\n")
}

func c16Raw(polys [][]orb.Ring) string { return fmt.Sprint(polys) }

// c16Ctx wraps the result of one case: within a case every signature is reported in full only
// the first time (later evaluations of the same signature are counted as plain evaluations,
// which keeps the result of an enumerated family small), and only the first violation per key
// carries its detail (the supervisor de-duplicates by key anyway).
type c16Ctx struct {
	*fw.Result
	sigs, keys, members map[string]bool
	dedupeSigs          bool
	// r draws the pre-annotation mixes and the degradations; seeded from the case
	r       *gen.R
	degrade bool
	rot     int
}

func c16NewCtx(c fw.Case) *c16Ctx {
	gen16 := c.Kind == "rand" || c.Kind == "grid" || c.Kind == "shared" || c.Kind == "concave" || c.Kind == "tiny"
	return &c16Ctx{Result: fw.NewResult(), sigs: map[string]bool{}, keys: map[string]bool{}, members: map[string]bool{},
		dedupeSigs: !gen16, r: gen.New(c.Seed^0x16c16, "c16pre/"+c.Kind), degrade: gen16}
}

// c16CheckHistory annotates all versions of one relation in a single call and requires, for
// every version, the directions of that version's own member ways.
func c16CheckHistory(res *c16Ctx, versions []*polyg.Instance, shape string) {
	rels, ds := polyg.RelationHistory(versions)
	var err error
	pan := ""
	func() {
		defer func() {
			if x := recover(); x != nil {
				pan = fmt.Sprintf("%v\n%s", x, debug.Stack())
			}
		}()
		err = annotate.Relations(context.Background(), rels, ds)
	}()
	nv := len(versions)
	res.Eval(fmt.Sprintf("%s/H%d", shape, nv))
	describe := func(extra map[string]any) map[string]any {
		d := map[string]any{"relation_versions": nv}
		for k, in := range versions {
			var ms []any
			for _, pi := range in.MemberOrder {
				pc := &in.Pieces[pi]
				var nodes []int64
				for _, vi := range pc.V {
					nodes = append(nodes, int64(in.Verts[vi].ID))
				}
				ms = append(ms, map[string]any{"way": pc.ID, "way_version": pc.Ver + 1, "role": pc.Role, "dir": int(pc.Dir), "nodes": nodes})
			}
			d[fmt.Sprintf("version_%d_members", k+1)] = ms
		}
		d["truth"] = versions[0].Describe()["truth_polygons_outer_ccw_holes_cw"]
		for k, v := range extra {
			d[k] = v
		}
		return d
	}
	if pan != "" || err != nil {
		res.Violate("C16/history-annotate-error/"+shape, fmt.Sprintf("annotate.Relations failed on a %d-version history of a valid multipolygon: %v %s", nv, err, pan), describe(nil))
		return
	}
	for k, in := range versions {
		got := map[int64]orb.Orientation{}
		for _, m := range rels[k].Members {
			if m.Type == osm.TypeWay {
				got[m.Ref] = m.Orientation
			}
		}
		var wrong []string
		class := ""
		for i := range in.Pieces {
			pc := &in.Pieces[i]
			res.Event(1)
			if g := got[int64(pc.ID)]; g != pc.Dir {
				if class == "" {
					class = pc.Role
					if g == 0 {
						class += "-unset"
					}
				}
				wrong = append(wrong, fmt.Sprintf("way %d v%d (%s): Orientation=%d, runs %d in relation version %d", pc.ID, pc.Ver+1, pc.Role, g, pc.Dir, k+1))
			}
		}
		if len(wrong) > 0 {
			which := "last"
			if k < nv-1 {
				which = "earlier"
			}
			res.Violate("C16/history-orientation-"+class+"/"+which+"/"+shape,
				fmt.Sprintf("relation version %d of %d: %d of %d way members marked with the wrong direction; first: %s", k+1, nv, len(wrong), len(in.Pieces), wrong[0]),
				describe(map[string]any{"version": k + 1, "wrong_members": wrong}))
		}
	}
	res.Add("history_inputs", 1)
	res.Add("history_relation_versions", int64(nv))
}

// c16RunDegraded takes the instance out of the property's domain and only runs it: one or two
// member ways lose the location of some of their nodes (LineStringAt / wayToLineString then
// return fewer points than the way has nodes), and / or a member way without any node is added.
func c16RunDegraded(res *c16Ctx, in *polyg.Instance, shape string, detail func(map[string]any) map[string]any) {
	d := polyg.Degrade{Unlocated: map[int][]int{}}
	kind := res.r.Intn(3)
	if kind != 1 {
		for n := res.r.Range(1, 2); n > 0; n-- {
			pi := res.r.Intn(len(in.Pieces))
			nv := len(in.Pieces[pi].V)
			cnt := res.r.Range(1, nv) // up to every node of the way
			d.Unlocated[pi] = res.r.Perm(nv)[:cnt]
		}
	}
	if kind != 0 {
		d.EmptyWay, d.EmptyRole, d.EmptyID = true, res.r.PickS("outer", "inner", "outer"), in.FreeWayID()
		d.EmptyAt = res.r.Intn(len(in.Pieces) + 1)
	}
	run := func(stage string, f func()) {
		defer func() {
			if x := recover(); x != nil {
				res.Violate("C16/panic-degraded-"+stage+"/"+shape, fmt.Sprintf("%s panicked on a multipolygon with unlocated way nodes / an empty member way: %v", stage, x),
					detail(map[string]any{"degrade": d, "panic": fmt.Sprintf("%v\n%s", x, debug.Stack())}))
			}
		}()
		f()
	}
	annotOK := false
	var rel *osm.Relation
	run("annotate", func() {
		var ds *osm.HistoryDatasource
		rel, ds = in.DegradedHistory(d)
		annotOK = annotate.Relations(context.Background(), osm.Relations{rel}, ds) == nil
	})
	run("convert-N", func() { osmgeojson.Convert(in.DegradedOSM(false, d)) })
	run("convert-W", func() { osmgeojson.Convert(in.DegradedOSM(true, d)) })
	res.Result.Eval("") // executed, nothing judged
	res.Add("degraded_inputs_run_not_asserted", 1)
	if len(d.Unlocated) == 0 && annotOK {
		// observed only: with nothing but an extra empty member way, do the real members still
		// get the truth's directions?
		ok := true
		got := map[int64]orb.Orientation{}
		for _, m := range rel.Members {
			if m.Type == osm.TypeWay { // a node member may share its number with a way
				got[m.Ref] = m.Orientation
			}
		}
		for i := range in.Pieces {
			if got[int64(in.Pieces[i].ID)] != in.Pieces[i].Dir {
				ok = false
			}
		}
		res.Add("observed_empty_member_way_inputs", 1)
		if ok {
			res.Add("observed_empty_member_way_inputs_directions_right", 1)
		}
	}
}

func (c *c16Ctx) Eval(sig string) {
	if c.dedupeSigs && c.sigs[sig] {
		c.Result.Eval("")
		return
	}
	c.sigs[sig] = true
	c.Result.Eval(sig)
}

func (c *c16Ctx) Violate(key, what string, detail any) {
	if c.keys[key] {
		c.Result.Add("violations_same_key_not_repeated", 1)
		return
	}
	c.keys[key] = true
	c.Result.Violate(key, what, detail)
}

func (c *c16Ctx) Put(set, member string) {
	if c.members[set+"\x00"+member] {
		return
	}
	c.members[set+"\x00"+member] = true
	c.Result.Put(set, member)
}

// c16RunVariant converts the instance in one input shape (coordinates on node objects or on way
// nodes; members annotated as in pre, nil = none) and judges the result against the truth.
func c16RunVariant(res *c16Ctx, in *polyg.Instance, lookup map[orb.Point]int, shape, name string, form string, pre []orb.Orientation,
	detail func(map[string]any) map[string]any) (canon, raw string, usable bool) {
	obs := c16Convert(in.OSMForm(form, pre))
	res.Eval(shape + "/" + name)
	for _, p := range obs.polys {
		res.Event(int64(len(p)))
	}
	res.Add("other_features_seen_not_asserted", int64(obs.nOther))
	issues := c16Judge(in, lookup, obs)
	if len(issues) > 0 {
		extra := map[string]any{"variant": name, "issues": issues, "observed_type": obs.gtype, "observed_polygons": obs.polys}
		if pre != nil {
			pm := map[string]int{}
			for i := range in.Pieces {
				pm[fmt.Sprint(in.Pieces[i].ID)] = int(pre[i])
			}
			extra["member_orientation_by_way"] = pm
		}
		res.Violate("C16/"+issues[0].Class+"/"+name+"/"+shape,
			fmt.Sprintf("variant %s: %s (%d issues)", name, issues[0].What, len(issues)), detail(extra))
	}
	if obs.nPoly == 1 && obs.panicked == "" && obs.err == nil {
		return c16Canon(obs.polys), c16Raw(obs.polys), true
	}
	return "", "", false
}

func c16Lookup(in *polyg.Instance) map[orb.Point]int {
	lookup := make(map[orb.Point]int, len(in.Verts))
	for i, v := range in.Verts {
		lookup[orb.Point{v.P.Lon(), v.P.Lat()}] = i
	}
	return lookup
}

// c16Check runs the whole oracle on one instance. family prefixes signatures and keys of the
// enumerated inputs ("" for generated ones).
func c16Check(res *c16Ctx, in *polyg.Instance, family string) {
	shape := in.Shape()
	if family != "" {
		shape = family + "/" + shape
	}
	if in.Label {
		shape += "/+node"
	}
	if in.NodeScheme != "" && in.NodeScheme != "pos" {
		shape += "/id-" + in.NodeScheme
	}
	res.Put("node_id_schemes", in.NodeScheme)
	lookup := make(map[orb.Point]int, len(in.Verts))
	for i, v := range in.Verts {
		lookup[orb.Point{v.P.Lon(), v.P.Lat()}] = i
	}
	detail := func(extra map[string]any) map[string]any {
		d := in.Describe()
		for k, v := range extra {
			d[k] = v
		}
		return d
	}

	// (1) orientation annotation by the library against the truth's directions: on members
	// without annotations (A), and on members that already carry annotations — the true
	// directions (re-annotation), the opposite ones (stale), and a mix of right / wrong / none.
	// Whatever the members carried before, afterwards they must carry the truth's directions.
	annot := func(mode string, pre []orb.Orientation) {
		rel, ds := in.History()
		if pre != nil {
			rel, ds = in.HistoryPre(pre)
		}
		keyMode, what := "", ""
		if mode != "A" {
			keyMode = "pre-" + mode + "-"
			what = " (members pre-annotated: " + mode + ")"
		}
		var err error
		pan := ""
		func() {
			defer func() {
				if x := recover(); x != nil {
					pan = fmt.Sprintf("%v\n%s", x, debug.Stack())
				}
			}()
			err = annotate.Relations(context.Background(), osm.Relations{rel}, ds)
		}()
		res.Eval(shape + "/" + mode)
		extra := map[string]any{}
		if pre != nil {
			pm := map[string]int{}
			for i := range in.Pieces {
				pm[fmt.Sprint(in.Pieces[i].ID)] = int(pre[i])
			}
			extra["pre_annotated_orientation_by_way"] = pm
		}
		if pan != "" {
			extra["panic"] = pan
			res.Violate("C16/"+keyMode+"annotate-panic/"+shape, "annotate.Relations panicked on a valid multipolygon"+what, detail(extra))
			return
		}
		if err != nil {
			res.Violate("C16/"+keyMode+"annotate-error/"+shape, "annotate.Relations failed on a valid multipolygon"+what+": "+err.Error(), detail(extra))
			return
		}
		got := map[int64]orb.Orientation{}
		for _, m := range rel.Members {
			if m.Type == osm.TypeWay {
				got[m.Ref] = m.Orientation
			}
		}
		var wrong []string
		class := ""
		for i := range in.Pieces {
			pc := &in.Pieces[i]
			res.Event(1)
			if g := got[int64(pc.ID)]; g != pc.Dir {
				c := pc.Role
				if pc.Closed {
					c += "-closed"
				}
				if g == 0 {
					c += "-unset"
				}
				if class == "" {
					class = c
				}
				p := ""
				if pre != nil {
					p = fmt.Sprintf(", carried %d before", pre[i])
				}
				wrong = append(wrong, fmt.Sprintf("way %d (%s, truth ring %d/%d): Orientation=%d, runs %d in the truth%s", pc.ID, pc.Role, pc.Poly, pc.Ring, g, pc.Dir, p))
			}
		}
		if len(wrong) > 0 {
			extra["wrong_members"] = wrong
			res.Violate("C16/"+keyMode+"orientation-"+class+"/"+shape, fmt.Sprintf("%d of %d way members annotated with the wrong direction%s; first: %s", len(wrong), len(in.Pieces), what, wrong[0]),
				detail(extra))
		}
	}
	annot("A", nil)
	{
		np := len(in.Pieces)
		same, opp, mix := make([]orb.Orientation, np), make([]orb.Orientation, np), make([]orb.Orientation, np)
		mixMode := res.r.Intn(3)
		for i := range in.Pieces {
			d := in.Pieces[i].Dir
			same[i], opp[i] = d, -d
			switch mixMode {
			case 0: // anything on every member
				mix[i] = orb.Orientation(res.r.Intn(3) - 1)
			case 1: // right on some members, nothing on the others
				if res.r.Bool() {
					mix[i] = d
				}
			default: // wrong on some members, nothing on the others
				if res.r.Bool() {
					mix[i] = -d
				}
			}
		}
		annot("A=", same)
		annot("A-", opp)
		annot("A~", mix)
	}

	// (1a) the relation as a history of 2-3 versions in ONE annotate call: between versions some
	// member ways get a reversed or split new version; each version against its own directions
	if res.degrade {
		versions := []*polyg.Instance{in}
		nextID := in.FreeWayID()
		fresh := func() osm.WayID { nextID++; return nextID - 1 }
		extraVersions := 1 + res.r.Intn(2)*res.r.Intn(2) // 2 versions (75%) or 3
		for k := 1; k <= extraVersions; k++ {
			versions = append(versions, versions[k-1].Evolve(res.r, k, fresh))
		}
		c16CheckHistory(res, versions, shape)
	}

	// (1b) outside the property (rings not fully located / a member that is no piece of a
	// ring): run, must not panic, nothing else asserted
	if res.degrade && res.r.Chance(0.25) {
		c16RunDegraded(res, in, shape, detail)
	}

	// (2) the input variants against the truth: four from the statement plus two in which only
	// a random non-empty proper subset of the members carries its (true) orientation
	variants := append([]c16Variant(nil), c16Variants...)
	if res.degrade {
		variants = append(variants, c16MoreForms...)
	} else {
		// enumerated families: one of the further coordinate forms per input, in rotation
		variants = append(variants, c16MoreForms[res.rot%len(c16MoreForms)])
		res.rot++
	}
	var partial []orb.Orientation
	if np := len(in.Pieces); np >= 2 {
		partial = make([]orb.Orientation, np)
		for ok := false; !ok; {
			n := 0
			for i := range partial {
				partial[i] = 0
				if res.r.Bool() {
					partial[i] = in.Pieces[i].Dir
					n++
				}
			}
			ok = n > 0 && n < np
		}
		variants = append(variants, c16Variant{"NP", false, true, ""}, c16Variant{"WP", true, true, ""})
	}
	canon := make([]string, len(variants))
	raw := make([]string, len(variants))
	usable := make([]bool, len(variants))
	for vi, v := range variants {
		var pre []orb.Orientation
		if v.orient {
			pre = in.Dirs()
		}
		if len(v.name) == 2 && v.name[1] == 'P' {
			pre = partial
		}
		canon[vi], raw[vi], usable[vi] = c16RunVariant(res, in, lookup, shape, v.name, v.form(), pre, detail)
	}
	// (3) the result is the same across the variants (up to start vertex / list order)
	for vi := 1; vi < len(variants); vi++ {
		if usable[0] && usable[vi] && canon[0] != canon[vi] {
			res.Violate("C16/variant-diff/N~"+variants[vi].name+"/"+shape,
				fmt.Sprintf("variants N and %s give different geometries", variants[vi].name),
				detail(map[string]any{"N": canon[0], variants[vi].name: canon[vi]}))
		}
	}
	// observed, not asserted: are the results even literally identical?
	if usable[0] && usable[1] && raw[0] == raw[1] {
		res.Add("literally_identical_N_W", 1)
	}
	if usable[0] && usable[2] && raw[0] == raw[2] {
		res.Add("literally_identical_N_NO", 1)
	}
	res.Add("truths", 1)
	res.Add("pieces", int64(len(in.Pieces)))
	res.SetMax("pieces_per_relation", int64(len(in.Pieces)))
	res.SetMax("vertices_per_relation", int64(len(in.Verts)))
	res.Put("shapes", shape)
	res.Put("origin_modes", in.T.Origin)
}

// ---------------------------------------------------------------------------------------
// enumerated families (independent of the seed)

func c16Gon(cx, cy int64, rad float64, n int, phase float64, cw bool) []polyg.Pt {
	out := make([]polyg.Pt, n)
	for i := range out {
		a := phase + 2*math.Pi*float64(i)/float64(n)
		out[i] = polyg.Pt{X: cx + int64(math.Round(rad*math.Cos(a))), Y: cy + int64(math.Round(rad*math.Sin(a)))}
	}
	if cw {
		for i, j := 0, n-1; i < j; i, j = i+1, j-1 {
			out[i], out[j] = out[j], out[i]
		}
	}
	return out
}

func c16MaskCut(n int, mask, rev uint) polyg.RingCut {
	var rc polyg.RingCut
	for i := 0; i < n; i++ {
		if mask&(1<<uint(i)) != 0 {
			rc.Cuts = append(rc.Cuts, i)
		}
	}
	rc.Rev = make([]bool, len(rc.Cuts))
	for i := range rc.Rev {
		rc.Rev[i] = rev&(1<<uint(i)) != 0
	}
	return rc
}

func c16Perms(n int, f func([]int)) {
	p := make([]int, n)
	for i := range p {
		p[i] = i
	}
	var rec func(k int)
	rec = func(k int) {
		if k == n {
			f(p)
			return
		}
		for i := k; i < n; i++ {
			p[k], p[i] = p[i], p[k]
			rec(k + 1)
			p[k], p[i] = p[i], p[k]
		}
	}
	rec(0)
}

func c16IDs(n int) ([]osm.NodeID, []osm.WayID) {
	ns := make([]osm.NodeID, n)
	ws := make([]osm.WayID, n)
	for i := range ns {
		ns[i] = osm.NodeID(1000 + i)
		ws[i] = osm.WayID(5000 + i)
	}
	return ns, ws
}

func c16Popcount(m uint) int {
	c := 0
	for ; m != 0; m &= m - 1 {
		c++
	}
	return c
}

// enum-ring: one outer n-gon; every non-empty cut set, every reversal mask, every member order.
func c16EnumRing(res *c16Ctx, n int, loMask, hiMask uint) int {
	t := &polyg.Truth{Polys: []polyg.Poly{{Outer: c16Gon(137_000_000, 521_000_000, 100_000, n, 0.3, false)}}, Origin: "far"}
	t.Normalise()
	if err := t.Validate(4); err != nil {
		panic("c16 enum-ring truth invalid: " + err.Error())
	}
	nodeIDs, wayIDs := c16IDs(64)
	count := 0
	for mask := loMask; mask <= hiMask; mask++ {
		if mask == 0 {
			continue
		}
		k := c16Popcount(mask)
		for rev := uint(0); rev < 1<<uint(k); rev++ {
			c16Perms(k, func(p []int) {
				in := polyg.Assemble(t, [][]polyg.RingCut{{c16MaskCut(n, mask, rev)}}, nodeIDs, wayIDs)
				in.MemberOrder = append([]int(nil), p...)
				c16Check(res, in, fmt.Sprintf("enum-ring%d", n))
				count++
			})
		}
	}
	return count
}

// enum-hole: a square outer (one closed way, or two pieces) and a quadrilateral hole in every
// cut set x reversal mask x order of the hole pieces; the outer members go first, last or in
// the middle of the member list.
func c16EnumHole(res *c16Ctx, split bool) int {
	t := &polyg.Truth{Polys: []polyg.Poly{{
		Outer: c16Gon(-712_000_000, -338_000_000, 300_000, 4, 0.1, false),
		Holes: [][]polyg.Pt{c16Gon(-712_030_000, -337_980_000, 80_000, 4, 0.7, true)},
	}}, Origin: "far"}
	t.Normalise()
	if err := t.Validate(4); err != nil {
		panic("c16 enum-hole truth invalid: " + err.Error())
	}
	nodeIDs, wayIDs := c16IDs(64)
	outerCut := c16MaskCut(4, 0b0100, 0)
	family := "enum-hole-closed"
	if split {
		outerCut = c16MaskCut(4, 0b1001, 0b10)
		family = "enum-hole-split"
	}
	no := len(outerCut.Cuts)
	count := 0
	for mask := uint(1); mask < 16; mask++ {
		k := c16Popcount(mask)
		for rev := uint(0); rev < 1<<uint(k); rev++ {
			c16Perms(k, func(p []int) {
				for place := 0; place < 3; place++ {
					in := polyg.Assemble(t, [][]polyg.RingCut{{outerCut, c16MaskCut(4, mask, rev)}}, nodeIDs, wayIDs)
					// pieces 0..no-1 are the outer's, no.. the hole's
					var order []int
					at := []int{0, k, k / 2}[place]
					for i := 0; i <= k; i++ {
						if i == at {
							for o := 0; o < no; o++ {
								order = append(order, o)
							}
						}
						if i < k {
							order = append(order, no+p[i])
						}
					}
					in.MemberOrder = order
					c16Check(res, in, family)
					count++
				}
			})
		}
	}
	return count
}

// enum-two: two triangular outers in every cut set x reversal mask each, one of them with a
// closed triangular hole, under six fixed member orders.
func c16EnumTwo(res *c16Ctx) int {
	t := &polyg.Truth{Polys: []polyg.Poly{
		{Outer: c16Gon(10_000_000, 20_000_000, 200_000, 3, 0.2, false)},
		{Outer: c16Gon(11_000_000, 20_100_000, 250_000, 3, 1.1, false),
			Holes: [][]polyg.Pt{c16Gon(11_000_000, 20_100_000, 40_000, 3, 0.5, true)}},
	}, Origin: "far"}
	t.Normalise()
	if err := t.Validate(4); err != nil {
		panic("c16 enum-two truth invalid: " + err.Error())
	}
	nodeIDs, wayIDs := c16IDs(64)
	pr := gen.New(16, "c16-enum-two-orders") // fixed: independent of VERIF_SEED
	count := 0
	for m1 := uint(1); m1 < 8; m1++ {
		for r1 := uint(0); r1 < 1<<uint(c16Popcount(m1)); r1++ {
			for m2 := uint(1); m2 < 8; m2++ {
				for r2 := uint(0); r2 < 1<<uint(c16Popcount(m2)); r2++ {
					for hrev := uint(0); hrev < 2; hrev++ {
						cuts := [][]polyg.RingCut{{c16MaskCut(3, m1, r1)}, {c16MaskCut(3, m2, r2), c16MaskCut(3, 0b010, hrev)}}
						np := c16Popcount(m1) + c16Popcount(m2) + 1
						for ord := 0; ord < 3; ord++ {
							in := polyg.Assemble(t, cuts, nodeIDs, wayIDs)
							switch ord {
							case 0: // identity
							case 1:
								for i, j := 0, np-1; i < j; i, j = i+1, j-1 {
									in.MemberOrder[i], in.MemberOrder[j] = in.MemberOrder[j], in.MemberOrder[i]
								}
							default:
								in.MemberOrder = pr.Perm(np)
							}
							c16Check(res, in, "enum-two")
							count++
						}
					}
				}
			}
		}
	}
	return count
}

// enum-grid: fixed lattice truth in the spirit of "several outers in a row": the triangular hole
// of the western square has vertices at exactly the latitudes of pass-through vertices of the
// hexagon and of the staircase east of it. split=false: every ring one closed way, all 120
// member orders. split=true: every outer in two pieces (one reversed), 8 members: all 40320
// orders when perms<=0, else every "outer X listed last" rotation of perms fixed-PRNG orders.
func c16EnumGrid(res *c16Ctx, split bool, perms int, first int) int {
	const step, bx, by = 10_000, 123_000_000, 456_000_000
	mk := func(cs ...[2]int64) []polyg.Pt {
		out := make([]polyg.Pt, len(cs))
		for i, c := range cs {
			out[i] = polyg.Pt{X: bx + c[0]*step, Y: by + c[1]*step}
		}
		return out
	}
	t := &polyg.Truth{Origin: "grid", Polys: []polyg.Poly{
		{Outer: mk([2]int64{0, 0}, [2]int64{6, 0}, [2]int64{6, 6}, [2]int64{0, 6}),
			Holes: [][]polyg.Pt{mk([2]int64{2, 2}, [2]int64{3, 4}, [2]int64{4, 3})}},
		{Outer: mk([2]int64{10, 0}, [2]int64{13, 0}, [2]int64{14, 3}, [2]int64{13, 4}, [2]int64{10, 4}, [2]int64{9, 2})},
		{Outer: mk([2]int64{17, 0}, [2]int64{22, 0}, [2]int64{22, 2}, [2]int64{23, 2}, [2]int64{23, 6}, [2]int64{17, 6}),
			Holes: [][]polyg.Pt{mk([2]int64{18, 3}, [2]int64{19, 5}, [2]int64{20, 4})}},
	}}
	t.Normalise()
	if err := t.Validate(step / 40); err != nil {
		panic("c16 enum-grid truth invalid: " + err.Error())
	}
	if pairs, _ := t.AlignedPassThrough(); pairs < 3 {
		panic("c16 enum-grid truth lost its aligned vertices")
	}
	nodeIDs, wayIDs := c16IDs(64)
	cut := func(n int) polyg.RingCut {
		if split {
			return c16MaskCut(n, 1|1<<uint(n/2), 0b10)
		}
		return c16MaskCut(n, 0b10, 0)
	}
	closed := func(rev uint) polyg.RingCut { return c16MaskCut(3, 0b001, rev) }
	cuts := [][]polyg.RingCut{{cut(4), closed(0)}, {cut(6)}, {cut(6), closed(1)}}
	base := polyg.Assemble(t, cuts, nodeIDs, wayIDs)
	np := len(base.Pieces)
	family := "enum-grid-closed"
	if split {
		family = "enum-grid-split"
	}
	count := 0
	if perms <= 0 {
		// all orders whose first member is piece `first` (the family is split over np cases)
		c16Perms(np, func(p []int) {
			if first >= 0 && p[0] != first {
				return
			}
			c16Check(res, base.WithOrder(p), family)
			count++
		})
		return count
	}
	pr := gen.New(16, "c16-enum-grid-orders") // fixed: independent of VERIF_SEED
	for i := 0; i < perms; i++ {
		p := pr.Perm(np)
		for pi := range t.Polys {
			c16Check(res, base.WithOrder(base.OuterLast(p, pi)), family)
			count++
		}
	}
	return count
}

// enum-partial: square outer in three ways and a quadrilateral hole in two ways; every subset
// of the five members carries its (true) orientation x every member order x the given reversal
// masks; converted with coordinates on node objects and on way nodes.
func c16EnumPartial(res *c16Ctx, revMasks []uint) int {
	t := &polyg.Truth{Polys: []polyg.Poly{{
		Outer: c16Gon(254_000_000, -101_000_000, 300_000, 4, 0.1, false),
		Holes: [][]polyg.Pt{c16Gon(254_020_000, -101_010_000, 90_000, 4, 0.9, true)},
	}}, Origin: "far"}
	t.Normalise()
	if err := t.Validate(4); err != nil {
		panic("c16 enum-partial truth invalid: " + err.Error())
	}
	nodeIDs, wayIDs := c16IDs(64)
	count := 0
	for _, rev := range revMasks {
		base := polyg.Assemble(t, [][]polyg.RingCut{{c16MaskCut(4, 0b1011, rev&7), c16MaskCut(4, 0b0101, rev>>3)}}, nodeIDs, wayIDs)
		lookup := c16Lookup(base)
		np := len(base.Pieces)
		c16Perms(np, func(p []int) {
			in := base.WithOrder(p)
			shape := "enum-partial/" + in.Shape()
			detail := func(extra map[string]any) map[string]any {
				d := in.Describe()
				for k, v := range extra {
					d[k] = v
				}
				return d
			}
			for sub := uint(0); sub < 1<<uint(np); sub++ {
				pre := make([]orb.Orientation, np)
				for i := range pre {
					if sub&(1<<uint(i)) != 0 {
						pre[i] = in.Pieces[i].Dir
					}
				}
				name := "P"
				if sub == 0 {
					name = ""
				} else if sub == 1<<uint(np)-1 {
					name = "O"
				}
				c16RunVariant(res, in, lookup, shape, "N"+name, "N", pre, detail)
				c16RunVariant(res, in, lookup, shape, "W"+name, "W", pre, detail)
				count++
			}
		})
	}
	return count
}

// c16CheckShared judges a set of relations sharing border ways: all relations go through ONE
// Convert call (in the given order); every relation must come out as its own truth, whatever
// else is in the input. Features are attributed to relations by geometry (a feature belongs to
// the relation whose truth it is); the feature's id property is only used to pick the feature
// to describe when something is wrong.
func c16CheckShared(res *c16Ctx, set *polyg.SharedSet, relOrder []int) {
	nrel := len(set.Rels)
	var pat []string
	for _, g := range set.Groups {
		pat = append(pat, fmt.Sprint(len(g)))
	}
	sort.Strings(pat)
	holes := 0
	for _, in := range set.Rels {
		for i := range in.T.Polys {
			holes += len(in.T.Polys[i].Holes)
		}
	}
	shape := fmt.Sprintf("shared/R%d/o%s/h%d", nrel, strings.Join(pat, ""), c16Cap(holes, 3))
	lookups := make([]map[orb.Point]int, nrel)
	for i, in := range set.Rels {
		lookups[i] = c16Lookup(in)
	}
	describe := func(extra map[string]any) map[string]any {
		d := map[string]any{"relations_in_input_order": relOrder, "shared_ways": set.SharedWays, "regions_per_relation": set.Groups}
		for i, in := range set.Rels {
			d[fmt.Sprintf("relation_%d_id_%d", i, in.RelID)] = in.Describe()
		}
		for k, v := range extra {
			d[k] = v
		}
		return d
	}
	// partial annotation: per relation a random subset of the members
	partial := make([][]orb.Orientation, nrel)
	for i, in := range set.Rels {
		partial[i] = make([]orb.Orientation, len(in.Pieces))
		for k := range partial[i] {
			if res.r.Bool() {
				partial[i][k] = in.Pieces[k].Dir
			}
		}
	}
	type variant struct {
		name       string
		onWayNodes bool
		mode       int // 0 none, 1 all, 2 partial
	}
	for _, v := range []variant{{"N", false, 0}, {"W", true, 0}, {"NO", false, 1}, {"WO", true, 1}, {"NP", false, 2}, {"WP", true, 2}} {
		parts := make([]*osm.OSM, 0, nrel)
		for _, ri := range relOrder {
			in := set.Rels[ri]
			var pre []orb.Orientation
			switch v.mode {
			case 1:
				pre = in.Dirs()
			case 2:
				pre = partial[ri]
			}
			parts = append(parts, in.OSMPre(v.onWayNodes, pre))
		}
		type feat struct {
			polys [][]orb.Ring
			gtype string
			id    int
		}
		var feats []feat
		pan, errText := "", ""
		func() {
			defer func() {
				if x := recover(); x != nil {
					pan = fmt.Sprintf("%v\n%s", x, debug.Stack())
				}
			}()
			fc, err := osmgeojson.Convert(polyg.MergeOSM(parts))
			if err != nil {
				errText = err.Error()
				return
			}
			for _, f := range fc.Features {
				ft := feat{id: -1}
				if id, ok := f.Properties["id"].(int); ok && f.Properties["type"] == "relation" {
					ft.id = id
				}
				switch g := f.Geometry.(type) {
				case orb.Polygon:
					ft.gtype, ft.polys = "Polygon", [][]orb.Ring{[]orb.Ring(g)}
				case orb.MultiPolygon:
					ft.gtype = "MultiPolygon"
					for _, p := range g {
						ft.polys = append(ft.polys, []orb.Ring(p))
					}
				default:
					continue
				}
				feats = append(feats, ft)
			}
		}()
		res.Eval(shape + "/" + v.name)
		if pan != "" {
			res.Violate("C16/panic/"+v.name+"/"+shape, "Convert panicked on relations sharing border ways", describe(map[string]any{"panic": pan}))
			continue
		}
		if errText != "" {
			res.Violate("C16/convert-error/"+v.name+"/"+shape, "Convert failed on relations sharing border ways: "+errText, describe(nil))
			continue
		}
		used := make([]bool, len(feats))
		for pos, ri := range relOrder {
			in := set.Rels[ri]
			res.Event(int64(len(in.Pieces)))
			matched := false
			for fi, ft := range feats {
				if used[fi] {
					continue
				}
				if len(c16Judge(in, lookups[ri], c16Obs{polys: ft.polys, gtype: ft.gtype, nPoly: 1})) == 0 {
					used[fi], matched = true, true
					break
				}
			}
			if matched {
				continue
			}
			// describe: the feature that claims to be this relation, else any unused one
			pick := -1
			for fi, ft := range feats {
				if !used[fi] && ft.id == int(in.RelID) {
					pick = fi
				}
			}
			for fi := range feats {
				if pick < 0 && !used[fi] {
					pick = fi
				}
			}
			which := "first"
			if pos > 0 {
				which = "later"
			}
			if pick < 0 {
				res.Violate("C16/feature-count-0/"+v.name+"/"+shape+"/"+which, fmt.Sprintf("variant %s: no feature has the geometry of relation %d (%s in the input)", v.name, in.RelID, which),
					describe(map[string]any{"variant": v.name, "relation": in.RelID}))
				continue
			}
			used[pick] = true
			issues := c16Judge(in, lookups[ri], c16Obs{polys: feats[pick].polys, gtype: feats[pick].gtype, nPoly: 1})
			res.Violate("C16/"+issues[0].Class+"/"+v.name+"/"+shape+"/"+which,
				fmt.Sprintf("variant %s, relation %d (%s of %d in the input): %s (%d issues)", v.name, in.RelID, which, nrel, issues[0].What, len(issues)),
				describe(map[string]any{"variant": v.name, "relation": in.RelID, "issues": issues, "observed_polygons": feats[pick].polys, "observed_type": feats[pick].gtype}))
		}
		for fi := range feats {
			if !used[fi] {
				res.Violate("C16/feature-extra/"+v.name+"/"+shape, fmt.Sprintf("variant %s: a polygonal feature belongs to none of the %d relations", v.name, nrel),
					describe(map[string]any{"variant": v.name, "observed_polygons": feats[fi].polys}))
			}
		}
	}
	res.Add("shared_inputs", 1)
	res.Add("shared_relations_converted_together", int64(nrel))
	res.Put("shapes", shape)
}

// c16AnnotateShared annotates every relation of the set on its own (annotate.Relations treats
// its argument as versions of one relation) over one datasource holding every way once.
func c16AnnotateShared(res *c16Ctx, set *polyg.SharedSet) {
	for ri, in := range set.Rels {
		ds := &osm.HistoryDatasource{Ways: map[osm.WayID]osm.Ways{}}
		for _, other := range set.Rels {
			_, d := other.History()
			for id, ws := range d.Ways {
				ds.Ways[id] = ws
			}
		}
		rel, _ := in.History()
		var err error
		pan := ""
		func() {
			defer func() {
				if x := recover(); x != nil {
					pan = fmt.Sprintf("%v\n%s", x, debug.Stack())
				}
			}()
			err = annotate.Relations(context.Background(), osm.Relations{rel}, ds)
		}()
		shape := fmt.Sprintf("shared/R%d", len(set.Rels))
		res.Eval(shape + "/A")
		if pan != "" || err != nil {
			res.Violate("C16/annotate-error/"+shape, fmt.Sprintf("annotate.Relations failed on relation %d of a shared-border set: %v %s", ri, err, pan), in.Describe())
			continue
		}
		got := map[int64]orb.Orientation{}
		for _, m := range rel.Members {
			if m.Type == osm.TypeWay {
				got[m.Ref] = m.Orientation
			}
		}
		for i := range in.Pieces {
			pc := &in.Pieces[i]
			res.Event(1)
			if got[int64(pc.ID)] != pc.Dir {
				res.Violate("C16/orientation-"+pc.Role+"/"+shape, fmt.Sprintf("way %d is marked %d in relation %d but runs %d around that relation's ring", pc.ID, got[int64(pc.ID)], in.RelID, pc.Dir), in.Describe())
				break
			}
		}
	}
}

// enum-history: two relation versions over fixed cuts; version 2 reverses every non-empty subset
// of the member ways (new way versions), member order reversed.
func c16EnumHistory(res *c16Ctx) int {
	t := &polyg.Truth{Polys: []polyg.Poly{{
		Outer: c16Gon(-712_000_000, -338_000_000, 300_000, 4, 0.1, false),
		Holes: [][]polyg.Pt{c16Gon(-712_030_000, -337_980_000, 80_000, 4, 0.7, true)},
	}}, Origin: "far"}
	t.Normalise()
	if err := t.Validate(4); err != nil {
		panic("c16 enum-history truth invalid: " + err.Error())
	}
	nodeIDs, wayIDs := c16IDs(64)
	count := 0
	for mask := uint(1); mask < 16; mask++ {
		v1 := polyg.Assemble(t, [][]polyg.RingCut{{c16MaskCut(4, 0b1001, 0b10), c16MaskCut(4, mask, 0b0101&(1<<uint(c16Popcount(mask))-1))}}, nodeIDs, wayIDs)
		np := len(v1.Pieces)
		for sub := uint(1); sub < 1<<uint(np); sub++ {
			v2 := v1.WithOrder(v1.MemberOrder)
			v2.Pieces = append([]polyg.Piece(nil), v1.Pieces...)
			for i := range v2.Pieces {
				pc := &v2.Pieces[i]
				pc.V = append([]int(nil), pc.V...)
				if sub&(1<<uint(i)) != 0 {
					for a, b := 0, len(pc.V)-1; a < b; a, b = a+1, b-1 {
						pc.V[a], pc.V[b] = pc.V[b], pc.V[a]
					}
					pc.Dir, pc.Reversed, pc.Ver, pc.Epoch = -pc.Dir, !pc.Reversed, 1, 1
				}
			}
			for i, j := 0, np-1; i < j; i, j = i+1, j-1 {
				v2.MemberOrder[i], v2.MemberOrder[j] = v2.MemberOrder[j], v2.MemberOrder[i]
			}
			c16CheckHistory(res, []*polyg.Instance{v1, v2}, "enum-history/"+v1.Shape())
			count++
		}
	}
	return count
}

// enum-edge: fixed truths whose vertices lie on the ends of the coordinate range.
func c16EnumEdge(res *c16Ctx) int {
	deg := func(lon, lat float64) polyg.Pt {
		return polyg.Pt{X: int64(math.Round(lon * 1e7)), Y: int64(math.Round(lat * 1e7))}
	}
	ring := func(cw bool, c ...float64) []polyg.Pt {
		var out []polyg.Pt
		for i := 0; i+1 < len(c); i += 2 {
			out = append(out, deg(c[i], c[i+1]))
		}
		if cw {
			for i, j := 0, len(out)-1; i < j; i, j = i+1, j-1 {
				out[i], out[j] = out[j], out[i]
			}
		}
		return out
	}
	truths := []*polyg.Truth{
		{Origin: "edge", Polys: []polyg.Poly{{
			Outer: ring(false, -180, -90, 12.5, -90, 180, -90, 180, 90, -180, 90),
			Holes: [][]polyg.Pt{ring(true, -100, -50, 120, -50, 120, 60, -100, 60)},
		}}},
		{Origin: "edge", Polys: []polyg.Poly{
			{Outer: ring(false, 170, -90, 180, -90, 180, 33.3, 180, 90, 170, 90),
				Holes: [][]polyg.Pt{ring(true, 172, -10, 178, -10, 175, 10)}},
			{Outer: ring(false, -180, -45, -170, -45, -170, 45, -180, 45)},
		}},
	}
	nodeIDs, wayIDs := c16IDs(64)
	count := 0
	for ti, t := range truths {
		t.Normalise()
		if err := t.Validate(1000); err != nil {
			panic("c16 enum-edge truth invalid: " + err.Error())
		}
		n0 := len(t.Polys[0].Outer)
		for mask := uint(1); mask < 1<<uint(n0); mask++ {
			k := c16Popcount(mask)
			for _, rev := range []uint{0, 1<<uint(k) - 1, 0b0101 & (1<<uint(k) - 1), 0b1010 & (1<<uint(k) - 1)} {
				cuts := [][]polyg.RingCut{{c16MaskCut(n0, mask, rev), c16MaskCut(len(t.Polys[0].Holes[0]), 0b011, 0b01)}}
				if ti == 1 {
					cuts = append(cuts, []polyg.RingCut{c16MaskCut(4, uint(1+mask%15), rev)})
				}
				for ord := 0; ord < 2; ord++ {
					in := polyg.Assemble(t, cuts, nodeIDs, wayIDs)
					if ord == 1 {
						for i, j := 0, len(in.MemberOrder)-1; i < j; i, j = i+1, j-1 {
							in.MemberOrder[i], in.MemberOrder[j] = in.MemberOrder[j], in.MemberOrder[i]
						}
					}
					c16Check(res, in, fmt.Sprintf("enum-edge%d", ti))
					count++
				}
			}
		}
	}
	return count
}

func c16Exec(c fw.Case) *fw.Result {
	res := c16NewCtx(c)
	switch c.Kind {
	case "rand":
		n := int(c.Int("n"))
		for i := 0; i < n; i++ {
			r := gen.New(gen.Sub(c.Seed, "c16truth", i), "c16")
			t, _ := polyg.Generate(r)
			in := polyg.RandomInstance(r, t)
			c16Check(res, in, "")
			if res.Sample == nil && len(in.Verts) <= 16 {
				res.Sample = in.Describe()
			}
		}
		if res.Sample == nil {
			res.Sample = map[string]any{"truths": n}
		}
	case "grid", "concave", "tiny":
		n := int(c.Int("n"))
		for i := 0; i < n; i++ {
			r := gen.New(gen.Sub(c.Seed, "c16grid", i), "c16g")
			var t *polyg.Truth
			fam := "grid"
			if c.Kind == "concave" {
				t, _ = polyg.GenerateConcave(r)
				fam = "concave"
				out, inOther := t.BBoxCentreStats()
				res.Add("concave_truths", 1)
				if out > 0 {
					fam = "concave-out"
					res.Add("concave_truths_hole_bbox_centre_outside_own_outer", 1)
				}
				if inOther > 0 {
					fam = "concave-in"
					res.Add("concave_truths_hole_bbox_centre_inside_other_outer", 1)
				}
			} else if c.Kind == "tiny" {
				t, _ = polyg.GenerateTiny(r)
				fam = "tiny"
				res.Add("tiny_truths", 1)
			} else {
				t, _ = polyg.GenerateGrid(r)
			}
			base := polyg.GridInstance(r, t)
			pairs, others := t.AlignedPassThrough()
			if pairs > 0 && fam == "grid" {
				fam = "grid-al"
				res.Add("grid_truths_with_aligned_pass_through_vertex", 1)
			}
			res.Add("grid_truths", 1)
			res.Add("grid_aligned_pairs", int64(pairs))
			np := len(base.Pieces)
			var orders [][]int
			if np <= 5 {
				c16Perms(np, func(p []int) { orders = append(orders, append([]int(nil), p...)) })
				res.Add("grid_truths_all_member_orders", 1)
			} else {
				for pi := range t.Polys {
					orders = append(orders, base.OuterLast(r.Perm(np), pi), base.OuterLast(r.Perm(np), pi))
				}
				orders = append(orders, r.Perm(np), r.Perm(np))
			}
			for _, o := range orders {
				in := base.WithOrder(o)
				// which polygon owns the last listed outer member?
				last := -1
				for _, x := range o {
					if in.Pieces[x].Ring == 0 {
						last = in.Pieces[x].Poly
					}
				}
				for own, qs := range others {
					if qs[last] && own != last {
						res.Add("grid_inputs_aligned_other_outer_listed_last", 1)
						break
					}
				}
				c16Check(res, in, fam)
				res.Add("grid_inputs", 1)
			}
			if res.Sample == nil && len(base.Verts) <= 20 && pairs > 0 {
				res.Sample = base.Describe()
			}
		}
		if res.Sample == nil {
			res.Sample = map[string]any{"grid_truths": n}
		}
	case "shared":
		n := int(c.Int("n"))
		for i := 0; i < n; i++ {
			r := gen.New(gen.Sub(c.Seed, "c16shared", i), "c16s")
			set := polyg.GenerateShared(r)
			c16AnnotateShared(res, set)
			// every order of the relations in the input
			c16Perms(len(set.Rels), func(p []int) { c16CheckShared(res, set, append([]int(nil), p...)) })
			res.Add("shared_sets", 1)
			res.Add("shared_border_ways", int64(set.SharedWays))
			if res.Sample == nil && len(set.Rels) == 2 && len(set.Rels[0].Verts)+len(set.Rels[1].Verts) <= 16 {
				res.Sample = map[string]any{"relation_0": set.Rels[0].Describe(), "relation_1": set.Rels[1].Describe(), "shared_ways": set.SharedWays}
			}
		}
		if res.Sample == nil {
			res.Sample = map[string]any{"shared_sets": n}
		}
	case "enum-history":
		cnt := c16EnumHistory(res)
		res.Sample = map[string]any{"family": "outer in two ways + hole in 1-4 ways; relation version 2 has every non-empty subset of the member ways reversed by a new way version", "inputs": cnt}
		res.Add("enumerated_inputs", int64(cnt))
	case "enum-edge":
		cnt := c16EnumEdge(res)
		res.Sample = map[string]any{"family": "rings on the ends of the coordinate range: the whole range (-180..180 x -90..90) with a hole; strips ending on lon=180 / lon=-180 from pole to pole", "inputs": cnt}
		res.Add("enumerated_inputs", int64(cnt))
	case "enum-partial":
		var masks []uint
		for m := c.Int("lo"); m <= c.Int("hi"); m++ {
			masks = append(masks, uint(m))
		}
		if c.Int("quick") == 1 {
			masks = []uint{0, 0b11111, 0b01010, 0b10101, 0b00110, 0b11001}
		}
		cnt := c16EnumPartial(res, masks)
		res.Sample = map[string]any{"family": "outer in 3 ways + hole in 2 ways: every subset of members annotated x every member order x reversal masks", "reversal_masks": masks, "inputs": cnt}
		res.Add("enumerated_inputs", int64(cnt))
	case "enum-grid":
		cnt := c16EnumGrid(res, c.Int("split") == 1, int(c.Int("perms")), int(c.Int("first"))-1)
		res.Sample = map[string]any{"family": "three outers in a row on an integer lattice (square with hole, hexagon, staircase with hole), hole vertices at the latitudes of pass-through vertices of the outers east of them; member orders enumerated", "split": c.Int("split"), "inputs": cnt}
		res.Add("enumerated_inputs", int64(cnt))
	case "enum-ring":
		cnt := c16EnumRing(res, int(c.Int("n")), uint(c.Int("lo")), uint(c.Int("hi")))
		res.Sample = map[string]any{"family": "single outer n-gon: all cut sets x reversal masks x member orders", "n": c.Int("n"), "cut_masks": []int64{c.Int("lo"), c.Int("hi")}, "inputs": cnt}
		res.Add("enumerated_inputs", int64(cnt))
	case "enum-hole":
		cnt := c16EnumHole(res, c.Int("split") == 1)
		res.Sample = map[string]any{"family": "square outer (closed / two pieces) with quadrilateral hole: all cut sets x reversal masks x orders of the hole pieces x 3 placements of the outer members", "inputs": cnt}
		res.Add("enumerated_inputs", int64(cnt))
	case "enum-two":
		cnt := c16EnumTwo(res)
		res.Sample = map[string]any{"family": "two triangular outers, all cut sets x reversal masks each, one closed hole, 3 member orders", "inputs": cnt}
		res.Add("enumerated_inputs", int64(cnt))
	}
	return res.Result
}

func init() {
	fw.Register(&fw.Prop{
		ID:    "C16",
		Level: "exploration",
		Rule: "generated ground truths (1-4 star-shaped outers in distinct grid cells, 0-3 holes each, validated by the generator's own exact point-in-polygon / segment-intersection tests), every ring cut at 1..n vertices, pieces reversed at random, members / ways / nodes shuffled; " +
			"each truth is converted in four input variants (N node objects, W located way nodes, NO/WO the same with truth-derived member orientations) and annotated four times: members without annotations (A), pre-annotated with the true directions (A=), with the opposite ones (A-), with a mix of right / wrong / none (A~); plus seed-independent exhaustive families (single n-gon: every cut set x reversal mask x member order; outer+hole; two outers). " +
			"Every input is also converted with only a random subset of members annotated (NP, WP; enum-partial: all subsets x orders), and sets of 2-4 relations sharing border ways (kind shared) go through one Convert call in every relation order, each relation judged against its own truth. " +
			"Concave truths (kind concave: thick-snake outers with corridor holes, further outers in the notch) and placements on the ends of the coordinate range (origin edge, enum-edge) are part of the case list. " +
			"Every generated input is also annotated as a history of 2-3 relation versions in one call (member ways reversed / split by new way versions between relation versions; signature suffix H<versions>). " +
			"Further coordinate forms per input: located way nodes without refs (Z), paths embedded in Member.Nodes with the ways absent (M, MZ, MZO); tiny truths (kind tiny: rings 1-12 coordinate steps across at +-179.9 / +-89.9 / mid-latitudes). " +
			"Ring node ids are drawn per input from five schemes (positive, all negative, mixed sign, around zero without 0, beyond 2^40); way and relation ids stay positive. " +
			"A signature is (family, #outers, holes per outer, cut classes present, reversal class, +node member, variant); distinct_nontrivial counts distinct signatures.",
		Assumptions: []string{
			"'the result is the same' is read up to ring start vertex, order of holes within a polygon and order of polygons; winding, closure and the cyclic vertex sequence are compared exactly (float64 bit patterns)",
			"one outer may come back as Polygon or as a MultiPolygon of one polygon; several outers must be a MultiPolygon",
			"exactly one feature with (Multi)Polygon geometry is required; other features in the collection (e.g. a Point for a label node member) are counted, not asserted (C17)",
			"feature id / tags are not asserted (a single closed outer way with an untagged relation is reported under the way's id by design)",
			"members with empty or other roles are ignored by the library and are outside the property: not generated for ways; 20% of the generated relations carry one node member (label/admin_centre), reported with '+node' in the key",
			"orientation-carrying variants use directions derived from the truth (independent producer); the library's own annotation is checked separately against the same directions",
			"annotating marks every way member with its true direction whatever Orientation values the members carried before (re-annotation, stale or partial annotations): asserted for annotate.Relations only; Convert is given correct annotations or none, because it documents that it trusts them",
			"node id 0 is never used for a ring node (ref 0 without location is the documented no-reference placeholder) and the node member keeps a positive id; negative way / relation ids are not generated (FeatureID packing, C10)",
			"member ways with unlocated nodes (fewer points than nodes) and member ways without nodes leave the property's domain (it requires located rings cut into pieces): 25% of the generated inputs are additionally run in such a degraded form through annotate.Relations and Convert; only panics are reported, results are counted, not judged",
		},
		Cases: func(tier string, seed uint64) []fw.Case {
			nCases, per := 60, 25
			if tier == "thorough" {
				nCases, per = 2000, 250
			}
			var cs []fw.Case
			for i := 0; i < nCases; i++ {
				cs = append(cs, fw.Case{Kind: "rand", Seed: gen.Sub(seed, "c16case", i), P: map[string]int64{"n": int64(per)}})
			}
			for _, n := range []int64{3, 4, 5} {
				cs = append(cs, fw.Case{Kind: "enum-ring", P: map[string]int64{"n": n, "lo": 1, "hi": 1<<uint(n) - 1}})
			}
			if tier == "thorough" {
				for lo := int64(1); lo < 64; lo += 8 {
					hi := lo + 7
					if hi > 63 {
						hi = 63
					}
					cs = append(cs, fw.Case{Kind: "enum-ring", P: map[string]int64{"n": 6, "lo": lo, "hi": hi}})
				}
			}
			cs = append(cs, fw.Case{Kind: "enum-hole", P: map[string]int64{"split": 0}})
			cs = append(cs, fw.Case{Kind: "enum-hole", P: map[string]int64{"split": 1}})
			cs = append(cs, fw.Case{Kind: "enum-two"})
			gridCases, gridPer := 40, 10
			if tier == "thorough" {
				gridCases, gridPer = 300, 40
			}
			for i := 0; i < gridCases; i++ {
				cs = append(cs, fw.Case{Kind: "grid", Seed: gen.Sub(seed, "c16gridcase", i), P: map[string]int64{"n": int64(gridPer)}})
			}
			sharedCases, sharedPer := 20, 15
			if tier == "thorough" {
				sharedCases, sharedPer = 300, 60
			}
			for i := 0; i < sharedCases; i++ {
				cs = append(cs, fw.Case{Kind: "shared", Seed: gen.Sub(seed, "c16sharedcase", i), P: map[string]int64{"n": int64(sharedPer)}})
			}
			if tier == "thorough" {
				for lo := int64(0); lo < 32; lo += 4 {
					cs = append(cs, fw.Case{Kind: "enum-partial", P: map[string]int64{"lo": lo, "hi": lo + 3}})
				}
			} else {
				cs = append(cs, fw.Case{Kind: "enum-partial", P: map[string]int64{"quick": 1}})
			}
			concCases, concPer := 20, 10
			if tier == "thorough" {
				concCases, concPer = 200, 40
			}
			for i := 0; i < concCases; i++ {
				cs = append(cs, fw.Case{Kind: "concave", Seed: gen.Sub(seed, "c16concavecase", i), P: map[string]int64{"n": int64(concPer)}})
			}
			tinyCases, tinyPer := 20, 15
			if tier == "thorough" {
				tinyCases, tinyPer = 200, 60
			}
			for i := 0; i < tinyCases; i++ {
				cs = append(cs, fw.Case{Kind: "tiny", Seed: gen.Sub(seed, "c16tinycase", i), P: map[string]int64{"n": int64(tinyPer)}})
			}
			cs = append(cs, fw.Case{Kind: "enum-edge"})
			cs = append(cs, fw.Case{Kind: "enum-history"})
			cs = append(cs, fw.Case{Kind: "enum-grid", P: map[string]int64{"split": 0}})
			if tier == "thorough" {
				for first := int64(1); first <= 8; first++ { // 8 members: one case per first member
					cs = append(cs, fw.Case{Kind: "enum-grid", P: map[string]int64{"split": 1, "perms": 0, "first": first}})
				}
			} else {
				cs = append(cs, fw.Case{Kind: "enum-grid", P: map[string]int64{"split": 1, "perms": 300}})
			}
			return fw.Number(cs)
		},
		Exec:       c16Exec,
		Exhaustive: func(string) bool { return false },
	})
}
