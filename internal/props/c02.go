package props

import (
	"context"
	"fmt"
	"runtime"
	"sort"
	"strings"
	"sync"
	"sync/atomic"
	"time"

	"github.com/paulmach/osm"
	"github.com/paulmach/osm/osmpbf"

	"verif/internal/eq"
	"verif/internal/fw"
	"verif/internal/gen"
	"verif/internal/mon"
	"verif/internal/pbfw"
)

// C02 — parallel PBF decoding preserves file order under every schedule.
//
// Observation points (all at the API boundary, on the library's own goroutines):
//   reader goroutine   -> io.Reader.Read      (delay before a block is served)
//   decoder goroutines -> Filter* callbacks   (delay inside the callback for the first
//                                              element of a block; every call is logged)
//   consumer           -> Scan/Object loop    (delay after the first object of a block)
// Oracle: delivered sequence == model sequence; each element reached a filter exactly once;
// snapshot of every retained object at delivery == its value after the scan; race log.
// Evidence: the permutation in which blocks finished decoding (last filter call per block).

var c02Plans = []string{"none", "revstair", "slowworker", "slowreader", "slowconsumer", "bursty", "random", "gosched"}

type c02Plan struct {
	reader   []time.Duration // per block, before its bytes are served
	decoder  []time.Duration // per block, inside the filter callback of its first element
	consumer []time.Duration // per block, after its first object was delivered
	gosched  bool
}

func c02MakePlan(r *gen.R, name string, nb, procs int) c02Plan {
	p := c02Plan{reader: make([]time.Duration, nb), decoder: make([]time.Duration, nb), consumer: make([]time.Duration, nb)}
	us := func(n int) time.Duration { return time.Duration(n) * time.Microsecond }
	switch name {
	case "revstair":
		// within each window of `procs` consecutive blocks the earlier block is slower, so
		// later blocks finish first
		w := procs
		if w < 2 {
			w = 2
		}
		for i := 0; i < nb; i++ {
			p.decoder[i] = us((w - i%w) * r.Range(150, 400))
		}
	case "slowworker":
		w := r.Intn(max1(procs))
		for i := 0; i < nb; i++ {
			if i%max1(procs) == w {
				p.decoder[i] = us(r.Range(800, 2500))
			}
		}
	case "slowreader":
		for i := 0; i < nb; i++ {
			p.reader[i] = us(r.Range(100, 900))
		}
	case "slowconsumer":
		for i := 0; i < nb; i++ {
			p.consumer[i] = us(r.Range(300, 1500))
		}
	case "bursty":
		for i := 0; i < nb; i++ {
			if (i/5)%2 == 0 {
				p.reader[i] = us(r.Range(300, 1200))
			} else {
				p.consumer[i] = us(r.Range(300, 1200))
			}
			if r.Chance(0.3) {
				p.decoder[i] = us(r.Range(200, 2000))
			}
		}
	case "random":
		for i := 0; i < nb; i++ {
			if r.Chance(0.4) {
				p.reader[i] = us(r.Range(0, 800))
			}
			if r.Chance(0.5) {
				p.decoder[i] = us(r.Range(0, 2500))
			}
			if r.Chance(0.4) {
				p.consumer[i] = us(r.Range(0, 1200))
			}
		}
	case "gosched":
		p.gosched = true
		for i := 0; i < nb; i++ {
			if r.Chance(0.3) {
				p.decoder[i] = us(r.Range(50, 600))
			}
		}
	}
	return p
}

// c02Twins: several scanners over different files running at the same time in one process.
// Scanners must not share mutable package state (pooled buffers, cached tables).
func c02Twins(c fw.Case) *fw.Result {
	res := fw.NewResult()
	n := int(c.Int("scanners"))
	type job struct {
		data  []byte
		want  []pbfw.Expect
		procs int
	}
	var jobs []job
	for i := 0; i < n; i++ {
		r := gen.New(gen.Sub(c.Seed, "c02twin", i), "c02twin")
		nb := r.Range(6, 30)
		f := pbfw.GenFile(r, pbfw.GenOpts{MinBlocks: nb, MaxBlocks: nb, MaxGroups: 2, MaxElems: 25})
		if i%3 == 0 {
			for _, b := range f.Blocks {
				b.Zlib = false // raw blobs: the decoder works on the blob's own bytes
			}
		}
		data, _ := f.Encode(nil)
		jobs = append(jobs, job{data, f.ExpectAll(), []int{1, 2, 4, 11}[i%4]})
	}
	var wg sync.WaitGroup
	start := make(chan struct{})
	// One more goroutine plays the impatient user next to them: it starts a scan, reads a few
	// objects, cancels the context while the reader is inside a (slow) Read and — without
	// waiting for that scan to wind down — starts the next one, whose first objects it checks.
	// The abandoned scanners are closed at the very end. Whatever a stopped scan still holds
	// must not reach any other scan.
	if len(jobs) > 0 {
		wg.Add(1)
		go func() {
			defer wg.Done()
			<-start
			j := jobs[0]
			var abandoned []*osmpbf.Scanner
			defer func() {
				for _, s := range abandoned {
					s.Close()
				}
			}()
			for round := 0; round < 16; round++ {
				// scan A: its reader is held inside the g-th Read, then A is cancelled
				ctx, cancel := context.WithCancel(context.Background())
				rd := mon.NewReader(j.data)
				rd.Chunk = 2048
				entered, release := make(chan struct{}), make(chan struct{})
				g := int64(7 + round%9) // beyond the blocks a Scan reads on the caller's own goroutine
				rd.Gate = func(call int64) {
					if call == g {
						close(entered)
						<-release
					}
				}
				s := osmpbf.New(ctx, rd, []int{1, 2, 4, 11}[round%4])
				aDone := make(chan struct{})
				go func() { // A's consumer: it blocks in Scan once the reader is held
					defer close(aDone)
					for s.Scan() {
					}
				}()
				held := false
				select {
				case <-entered:
					held = true
				case <-aDone: // the file was shorter than g reads
				}
				cancel()
				// Scan returns false after the cancellation — unless it is the consumer's own
				// goroutine that sits in the held Read (a library may read more on the caller's
				// goroutine than this one does): then the hold is given up and the round is an
				// ordinary cancel
				released := false
				for i := 0; ; i++ {
					select {
					case <-aDone:
					default:
						if i < 40000 {
							runtime.Gosched()
							if i%200 == 199 {
								time.Sleep(50 * time.Microsecond)
							}
							continue
						}
						close(release)
						released, held = true, false
						<-aDone
					}
					break
				}
				abandoned = append(abandoned, s)
				// scan B starts at once, while A's reader still sits in its Read
				bs := osmpbf.New(context.Background(), mon.NewReader(j.data), []int{2, 1, 11, 4}[round%4])
				var got []osm.Object
				for len(got) < 5 && bs.Scan() {
					got = append(got, bs.Object())
				}
				if !released {
					close(release) // A's Read now completes and writes into whatever buffer it was given
				}
				for bs.Scan() {
					got = append(got, bs.Object())
				}
				if err := bs.Err(); err != nil {
					res.Violatef("C02/twins/after-abandoned-scan/err", "round %d: a scan started right after another scan had been cancelled inside Read failed on a valid file: %v", round, err)
				} else if d := pbfw.CompareSeq(j.want, got); d != "" {
					res.Violatef("C02/twins/after-abandoned-scan", "round %d: a scan started right after another scan had been cancelled inside Read: %s", round, d)
				}
				bs.Close()
				if held {
					res.Add("scans_cancelled_inside_read", 1)
				}
			}
			res.Add("abandoned_scans", 16)
		}()
	}
	for i, j := range jobs {
		wg.Add(1)
		go func(i int, j job) {
			defer wg.Done()
			<-start
			for rep := 0; rep < 3; rep++ {
				var snaps []string
				sr := pbfScan(mon.NewReader(j.data), j.procs, false, nil, func(k int, o osm.Object, s *osmpbf.Scanner) {
					snaps = append(snaps, eq.Dump(o))
					if k%7 == 0 {
						runtime.Gosched()
					}
				})
				key := fmt.Sprintf("C02/twins/procs%d", j.procs)
				if sr.Err != nil {
					res.Violatef(key+"/err", "scanner %d of %d concurrent scanners failed on a valid file: %v", i, len(jobs), sr.Err)
					continue
				}
				if d := pbfw.CompareSeq(j.want, sr.Objs); d != "" {
					res.Violatef(key+"/sequence", "scanner %d of %d concurrent scanners: %s", i, len(jobs), d)
				}
				for k, o := range sr.Objs {
					if k < len(snaps) && eq.Dump(o) != snaps[k] {
						res.Violatef(key+"/retained-object-changed", "scanner %d: object #%d changed after delivery while other scanners were running", i, k)
						break
					}
				}
				res.Event(int64(len(sr.Objs)))
			}
		}(i, j)
	}
	close(start)
	wg.Wait()
	res.Add("concurrent_scanner_runs", int64(3*len(jobs)))
	res.Eval(fmt.Sprintf("twins/%d/%s", n, c.Variant))
	res.Sample = map[string]any{"scanners": n, "variant": c.Variant}
	return res
}

func c02Exec(c fw.Case) *fw.Result {
	if c.Kind == "twins" {
		return c02Twins(c)
	}
	res := fw.NewResult()
	r := gen.New(c.Seed, "c02")
	nb := r.Range(12, 60)
	f := pbfw.GenFile(r, pbfw.GenOpts{MinBlocks: nb, MaxBlocks: nb, MaxGroups: 2, MaxElems: 20})
	if c.Int("bigblock") == 1 {
		// blocks beyond the customary 8000 elements (the format only recommends that size)
		var ctr int64 = 1 << 30
		for _, bi := range []int{1, len(f.Blocks) / 2} {
			n := []int{8001, 8005, 16000, 16001, 9000}[r.Intn(5)]
			b := f.Blocks[bi]
			b.Groups = []*pbfw.Group{pbfw.GenGroupIDs(r, b, pbfw.KDense, n, &ctr, pbfw.GenOpts{Plain: true, SmallStrings: true})}
		}
	}
	if c.Int("noheader") == 1 {
		f.Header = nil // a resumed stream: the first block is a data block
	}
	data, lay := f.Encode(nil)
	want := f.ExpectAll()
	procs := int(c.Int("procs"))
	planName := c.Str("plan")
	plan := c02MakePlan(gen.New(c.Seed, "c02plan"+planName), planName, nb, procs)
	if gmp := int(c.Int("gomaxprocs")); gmp > 0 {
		old := runtime.GOMAXPROCS(gmp)
		defer runtime.GOMAXPROCS(old)
	}
	key := fmt.Sprintf("C02/procs%d/%s", procs, planName)

	pos := map[c08Key]int{}
	firstOf := map[int]bool{} // position is the first element of its block
	lastBlock := -1
	for i, e := range want {
		pos[c08KeyOf(e.Obj)] = i
		if e.Block != lastBlock {
			firstOf[i] = true
			lastBlock = e.Block
		}
	}
	var log mon.Log
	filterCalls := make([]int32, len(want))
	var unknown atomic.Int64
	var cbMu sync.Mutex
	var cbDiff string
	onFilter := func(o osm.Object) bool {
		p, ok := pos[c08KeyOf(o)]
		if !ok {
			unknown.Add(1)
			return true
		}
		atomic.AddInt32(&filterCalls[p], 1)
		bi := want[p].Block
		if firstOf[p] {
			if d := plan.decoder[bi]; d > 0 {
				time.Sleep(d)
			}
		}
		if plan.gosched {
			runtime.Gosched()
		}
		if d := pbfw.Compare(want[p], o); d != "" {
			cbMu.Lock()
			if cbDiff == "" {
				cbDiff = fmt.Sprintf("element #%d (block %d) as seen by the filter: %s", p, bi, d)
			}
			cbMu.Unlock()
		}
		log.Add("F", int64(bi), int64(p))
		return true
	}
	rd := mon.NewReader(data)
	rd.DelayAt = map[int64]time.Duration{}
	for bi, st := range lay.Start {
		if plan.reader[bi] > 0 {
			rd.DelayAt[st] = plan.reader[bi]
		}
	}
	var snaps []string
	// half of the runs: the consumer treats what it was handed as its own and appends to the
	// tag, node and member lists at once ("consumes and retains"); nothing else may notice
	own := (c.Seed>>5)%2 == 1
	var undo []func()
	sr := pbfScan(rd, procs, false, func(s *osmpbf.Scanner) {
		s.FilterNode = func(n *osm.Node) bool { return onFilter(n) }
		s.FilterWay = func(w *osm.Way) bool { return onFilter(w) }
		s.FilterRelation = func(r *osm.Relation) bool { return onFilter(r) }
	}, func(i int, o osm.Object, s *osmpbf.Scanner) {
		if own {
			cl := eq.Clone(o)
			c08Own(cl, i)
			snaps = append(snaps, eq.Dump(cl))
			undo = append(undo, c08Own(o, i))
		} else {
			snaps = append(snaps, eq.Dump(o))
		}
		p := -1
		if q, ok := pos[c08KeyOf(o)]; ok {
			p = q
		}
		log.Add("D", int64(i), int64(p))
		if p >= 0 && firstOf[p] {
			if d := plan.consumer[want[p].Block]; d > 0 {
				time.Sleep(d)
			}
		}
		if plan.gosched {
			runtime.Gosched()
		}
	})
	res.Event(int64(log.Len()))
	if sr.Err != nil {
		res.Violatef(key+"/err", "scan of a valid file failed with %d decoders under plan %s: %v", procs, planName, sr.Err)
		return res
	}
	for i, o := range sr.Objs {
		if i < len(snaps) && eq.Dump(o) != snaps[i] {
			res.Violatef(key+"/retained-object-changed", "object #%d (%s) changed after delivery (consumer appends to its objects: %v): %s", i, objID(o), own, eq.Diff(snaps[i], eq.Dump(o)))
			break
		}
	}
	for _, u := range undo {
		u()
	}
	if d := pbfw.CompareSeq(want, sr.Objs); d != "" {
		res.Violatef(key+"/sequence", "%d decoders, plan %s: %s", procs, planName, d)
	}
	if own {
		res.Add("runs_with_owning_consumer", 1)
	}
	if cbDiff != "" {
		res.Violatef(key+"/decoder-view", "%s", cbDiff)
	}
	if unknown.Load() > 0 {
		res.Violatef(key+"/invented", "%d elements handed to filters are not in the file", unknown.Load())
	}
	for p, n := range filterCalls {
		if n != 1 {
			res.Violatef(key+"/exactly-once", "element #%d (block %d) reached a filter %d times", p, want[p].Block, n)
			break
		}
	}
	// schedule evidence: completion order of blocks
	evs := log.Events()
	lastF := map[int64]int64{}
	var firstD = map[int64]int64{} // block -> seq of first delivery
	for _, e := range evs {
		switch e.Kind {
		case "F":
			lastF[e.A] = e.Seq
		case "D":
			if e.B >= 0 {
				b := int64(want[e.B].Block)
				if _, ok := firstD[b]; !ok {
					firstD[b] = e.Seq
				}
			}
		}
	}
	type bc struct{ b, seq int64 }
	var order []bc
	for b, s := range lastF {
		order = append(order, bc{b, s})
	}
	sort.Slice(order, func(i, j int) bool { return order[i].seq < order[j].seq })
	inv, maxDisp := 0, 0
	var sb strings.Builder
	for i, o := range order {
		fmt.Fprintf(&sb, "%d,", o.b)
		if i > 0 && order[i-1].b > o.b {
			inv++
		}
		if d := int(o.b) - i; d > maxDisp {
			maxDisp = d
		} else if -d > maxDisp {
			maxDisp = -d
		}
	}
	// overlap: the consumer already received block k while a later block was still decoding
	overlap := 0
	for b, ds := range firstD {
		for b2, fs := range lastF {
			if b2 > b && fs > ds {
				overlap++
				break
			}
		}
	}
	res.Put("completion_orders", fw.HashKey(sb.String()))
	if inv > 0 {
		res.Add("runs_with_inversion", 1)
	}
	res.Add("runs", 1)
	res.Add("overlap_events", int64(overlap))
	res.SetMax("displacement", int64(maxDisp))
	res.SetMax("inversions_in_one_run", int64(inv))
	sig := fmt.Sprintf("procs%d/%s/gmp%d/inv%v/ovl%v/hdr%v", procs, planName, c.Int("gomaxprocs"), inv > 0, overlap > 0, f.Header != nil)
	res.Eval(sig)
	res.Sample = map[string]any{"blocks": nb, "objects": len(want), "procs": procs, "plan": planName, "gomaxprocs": c.Int("gomaxprocs"),
		"inversions": inv, "max_displacement": maxDisp, "overlap_blocks": overlap, "completion_order_prefix": trimStr(sb.String(), 80)}
	return res
}

func trimStr(s string, n int) string {
	if len(s) > n {
		return s[:n] + "…"
	}
	return s
}

func c02Cases(tier string, seed uint64) []fw.Case {
	procs := []int64{1, 2, 3, 4, 7, 10, 11, 16, 32}
	gmps := []int64{0, 1, 2, 16}
	nRace, nPlain := 270, 270
	if tier == "thorough" {
		nRace, nPlain = 3000, 3000
	}
	var cs []fw.Case
	add := func(v string, n int) {
		for i := 0; i < n; i++ {
			cs = append(cs, fw.Case{Kind: "schedule", Variant: v, Seed: gen.Sub(seed, "c02"+v, i/3),
				P: map[string]int64{"procs": procs[i%len(procs)], "gomaxprocs": gmps[(i/len(procs))%len(gmps)], "noheader": int64(b2i(i%5 == 3)), "bigblock": int64(b2i(i%30 == 7))},
				S: map[string]string{"plan": c02Plans[(i/2)%len(c02Plans)]}})
		}
	}
	add("race", nRace)
	add("plain", nPlain)
	add("nocgo", nPlain/5) // the pure-Go zlib back end under the same schedules
	ntw := 8
	if tier == "thorough" {
		ntw = 80
	}
	for i := 0; i < ntw; i++ {
		cs = append(cs, fw.Case{Kind: "twins", Variant: []string{"race", "plain", "nocgo", "race"}[i%4], Seed: gen.Sub(seed, "c02twins", i), P: map[string]int64{"scanners": int64(3 + i%6)}})
	}
	return fw.Number(cs)
}

func init() {
	fw.Register(&fw.Prop{
		ID:    "C02",
		Level: "exploration",
		Rule: "PRNG files of 12-60 small mixed blocks, a thirtieth of them with blocks of 8001-16001 elements (a fifth of them without header block, i.e. resumed streams); decoder counts {1,2,3,4,7,10,11,16,32}; perturbation plans {none, reverse staircase, one slow worker, slow reader, slow consumer, bursty, random, Gosched storm} injected in the reader's Read, the decoders' filter callbacks and the consumer loop; GOMAXPROCS {default,1,2,16}; half the runs under the race detector, a tenth with the pure-Go zlib back end; in half the runs the consumer appends to the tag, node and member lists of every object it is handed (what it owns must not be visible in any other object); plus 3-8 scanners over different files running concurrently in one process, next to a goroutine that keeps cancelling scans mid-Read and starting new ones at once. " +
			"Schedules are sampled, not enumerated. Signature = (decoders, plan, GOMAXPROCS, run had a completion inversion, consumer overlapped a later block's decoding); the evidence also counts distinct block-completion permutations.",
		Assumptions: []string{
			"filter callbacks always return true here, so the sequence must equal the unfiltered model sequence",
			"delays never feed a verdict; a run set without any completion inversion is reported as inconclusive for the schedule part",
		},
		Cases:            c02Cases,
		Exec:             c02Exec,
		CrashIsViolation: true,
		RaceIsViolation:  true,
		Workers:          8,
		Post: func(tier string, a *fw.Agg) {
			if a.Counts["runs_with_inversion"] == 0 {
				a.Inconclusive = append(a.Inconclusive, "no run showed a later block finishing before an earlier one: the schedule part was not exercised")
			}
		},
	})
}
