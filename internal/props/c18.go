package props

import (
	"fmt"
	"math"
	"sort"
	"strings"
	"sync"
	"sync/atomic"
	"time"

	"github.com/paulmach/osm"

	"verif/internal/fw"
	"verif/internal/gen"
)

// C18 — area classification of ways follows the published polygon-features rules; a relation
// is an area exactly when type ∈ {multipolygon, boundary}.
//
// Monitor shape: reference model evaluated on every enumerated input. The reference below is
// /verif's own copy of the published Overpass-turbo / id-area-keys "polygon-features" table
// (tyrasd/osm-polygon-features, polygon-features.json), held as three hash maps grouped by
// rule kind, and a set-based evaluator that walks the *way's tags* (not the table) and looks
// each one up by hashing. No slices of values, no sorting, no binary search: the library's
// init-time sort, its binary search and its per-value answers are what is under test.
//
// The published table's entry {"key":"area","polygon":"all"} is not in the maps: the property
// statement gives the area tag its own clause (never for "no", always for any other
// non-empty value), which is what that entry plus the global "no" rule amount to.

// --- reference table -------------------------------------------------------------------------

type c18Set map[string]struct{}

func c18SetOf(vs ...string) c18Set {
	s := c18Set{}
	for _, v := range vs {
		s[v] = struct{}{}
	}
	return s
}

// keys for which every value except "no" makes an area
var c18RuleAll = c18SetOf(
	"amenity", "area:highway", "boundary", "building", "building:part", "craft",
	"golf", "historic", "indoor", "landuse", "leisure", "military",
	"office", "place", "public_transport", "ruins", "shop", "tourism",
)

// keys for which only the listed values make an area (whitelist)
var c18RuleOnly = map[string]c18Set{
	"barrier":  c18SetOf("city_wall", "ditch", "hedge", "retaining_wall", "wall", "spikes"),
	"highway":  c18SetOf("services", "rest_area", "escape", "elevator"),
	"power":    c18SetOf("plant", "substation", "generator", "transformer"),
	"railway":  c18SetOf("station", "turntable", "roundhouse", "platform"),
	"waterway": c18SetOf("riverbank", "dock", "boatyard", "dam"),
}

// keys for which every value except "no" and the listed ones makes an area (blacklist)
var c18RuleExcept = map[string]c18Set{
	"aeroway":  c18SetOf("taxiway"),
	"man_made": c18SetOf("cutline", "embankment", "pipeline"),
	"natural":  c18SetOf("coastline", "cliff", "ridge", "arete", "tree_row"),
}

// c18KeyOrder fixes a deterministic enumeration order of the rule keys (Go map iteration is
// random). It is checked against the maps in c18Stats.
var c18KeyOrder = []string{
	"aeroway", "amenity", "area:highway", "barrier", "boundary", "building", "building:part",
	"craft", "golf", "highway", "historic", "indoor", "landuse", "leisure", "man_made",
	"military", "natural", "office", "place", "power", "public_transport", "railway", "ruins",
	"shop", "tourism", "waterway",
}

// Counts and an order-independent checksum of the table, computed once from a second,
// separate transcription of the published list (python, not part of the check):
// checksum = Σ fnv1a64(key \x1f kind \x1f value) mod 2^64 over all (key, kind, value) entries,
// with one entry (value "") per "all" key. They guard the table above against slips and are
// written into the evidence file.
const (
	c18WantKeys       = 26
	c18WantAllKeys    = 18
	c18WantOnlyKeys   = 5
	c18WantOnlyVals   = 22
	c18WantExceptKeys = 3
	c18WantExceptVals = 9
	c18WantChecksum   = uint64(0xfe2a837b2fff795c)
)

type c18TableStats struct {
	Keys, AllKeys, OnlyKeys, OnlyVals, ExceptKeys, ExceptVals int
	Checksum                                                  uint64
}

func c18Fnv(s string) uint64 {
	h := uint64(0xcbf29ce484222325)
	for i := 0; i < len(s); i++ {
		h ^= uint64(s[i])
		h *= 0x100000001b3
	}
	return h
}

// c18Stats measures the table and panics (broken check, never a verdict) when it does not
// match the embedded counts / checksum or the enumeration order list.
func c18Stats() c18TableStats {
	var st c18TableStats
	seen := map[string]int{}
	for k := range c18RuleAll {
		st.AllKeys++
		seen[k]++
		st.Checksum += c18Fnv(k + "\x1fall\x1f")
	}
	for k, vs := range c18RuleOnly {
		st.OnlyKeys++
		seen[k]++
		for v := range vs {
			st.OnlyVals++
			st.Checksum += c18Fnv(k + "\x1fwhitelist\x1f" + v)
		}
	}
	for k, vs := range c18RuleExcept {
		st.ExceptKeys++
		seen[k]++
		for v := range vs {
			st.ExceptVals++
			st.Checksum += c18Fnv(k + "\x1fblacklist\x1f" + v)
		}
	}
	st.Keys = len(seen)
	want := c18TableStats{c18WantKeys, c18WantAllKeys, c18WantOnlyKeys, c18WantOnlyVals, c18WantExceptKeys, c18WantExceptVals, c18WantChecksum}
	if st != want {
		panic(fmt.Sprintf("C18 harness: reference table %+v does not match its embedded counts/checksum %+v", st, want))
	}
	if len(c18KeyOrder) != st.Keys {
		panic("C18 harness: key order list and table differ in size")
	}
	for _, k := range c18KeyOrder {
		if seen[k] != 1 {
			panic("C18 harness: key order list names a key that is not in exactly one rule map: " + k)
		}
		seen[k]--
	}
	return st
}

func c18KindOf(k string) string {
	if _, ok := c18RuleAll[k]; ok {
		return "all"
	}
	if _, ok := c18RuleOnly[k]; ok {
		return "whitelist"
	}
	if _, ok := c18RuleExcept[k]; ok {
		return "blacklist"
	}
	return ""
}

// --- reference evaluator ---------------------------------------------------------------------

type c18Tag struct{ K, V string }

// c18TagSet turns a tag list into a set; the generators never repeat a key (a list with a
// repeated key is not a tag set and the property says nothing about it).
func c18TagSet(tags []c18Tag) map[string]string {
	m := make(map[string]string, len(tags))
	for _, t := range tags {
		if _, dup := m[t.K]; dup {
			panic("C18 harness: generated tag list repeats key " + t.K)
		}
		m[t.K] = t.V
	}
	return m
}

// c18RefTags evaluates the tag clause of the property on a tag set.
//
// emptyRuleValueCounts selects the reading of a rule key that is present with an EMPTY value:
// false = the tag counts as absent (the library's reading; Tags.Find documents "" as "not
// found", and the statement's area clause says "non-empty"); true = "" is "a value other than
// 'no'" (the literal reading, which is also what osmtogeojson does). The two readings differ
// only for all/blacklist keys with an empty value; the check asserts nothing where they differ.
// An empty *area* value is "absent" under both readings (the statement says "non-empty").
func c18RefTags(set map[string]string, emptyRuleValueCounts bool) bool {
	if a, ok := set["area"]; ok && a != "" {
		return a != "no"
	}
	for k, v := range set {
		if v == "no" || (v == "" && !emptyRuleValueCounts) {
			continue
		}
		if _, ok := c18RuleAll[k]; ok {
			return true
		}
		if only, ok := c18RuleOnly[k]; ok {
			if _, in := only[v]; in {
				return true
			}
		}
		if except, ok := c18RuleExcept[k]; ok {
			if _, in := except[v]; !in {
				return true
			}
		}
	}
	return false
}

// c18RefShape: closed (first node ref == last) with more than three node refs.
func c18RefShape(ids []int64) bool {
	return len(ids) > 3 && ids[0] == ids[len(ids)-1]
}

// --- checker ---------------------------------------------------------------------------------

type c18Checker struct {
	res             *fw.Result
	kind            string // case kind, for the per-sub-check violation counters in the evidence
	reorderReported bool
	violations      int
	samples         []any
}

const c18MaxViolationsPerCase = 40

// afterCall looks at the caller's object after Polygon() returned. A classification that
// changes the tag SET (a tag lost, added, rewritten) has changed what the answer depends on:
// violation. One that only REORDERS the caller's tags still answers from the same set; the
// statement ("depends only on the tag set, not on tag order") does not say the way is left
// untouched, so a reorder is recorded (counter + one INCONCLUSIVE line per case), not asserted.
func (ck *c18Checker) afterCall(key, what string, before []c18Tag, after osm.Tags, nBefore, nAfter int) {
	ck.res.Add("objects_compared_before_after", 1)
	same := len(before) == len(after) && nBefore == nAfter
	if same {
		for i, t := range before {
			if after[i].Key != t.K || after[i].Value != t.V {
				same = false
				break
			}
		}
	}
	if same {
		return
	}
	if !c18SameTagMultiset(before, after) || nBefore != nAfter {
		ck.violate(key+"/object-changed", "%s.Polygon() changed its receiver: tags before %s, after %s; nodes/members %d -> %d", what, c18FmtTags(before), c18FmtOsmTags(after), nBefore, nAfter)
		return
	}
	ck.res.Add("tags_reordered_by_polygon", 1)
	ck.res.SetMax("tags_reordered_by_polygon_min_tags_neg", -int64(len(before)))
	if !ck.reorderReported {
		ck.reorderReported = true
		ck.res.Inconc("%s.Polygon() reordered the caller's tags (same tag set, answer unaffected; not asserted): before %s, after %s", what, c18FmtTags(before), c18FmtOsmTags(after))
	}
}

func c18SameTagMultiset(before []c18Tag, after osm.Tags) bool {
	if len(before) != len(after) {
		return false
	}
	n := map[c18Tag]int{}
	for _, t := range before {
		n[t]++
	}
	for _, t := range after {
		k := c18Tag{t.Key, t.Value}
		if n[k] == 0 {
			return false
		}
		n[k]--
	}
	return true
}

func c18FmtOsmTags(ts osm.Tags) string {
	l := make([]c18Tag, len(ts))
	for i, t := range ts {
		l[i] = c18Tag{t.Key, t.Value}
	}
	return c18FmtTags(l)
}

func (ck *c18Checker) violate(key, format string, a ...any) {
	ck.violations++
	ck.res.Add("violations_in_"+ck.kind, 1)
	if ck.violations > c18MaxViolationsPerCase {
		ck.res.Add("violations_beyond_per_case_cap", 1)
		return
	}
	ck.res.Violatef(key, format, a...)
}

func c18Way(ids []int64, tags []c18Tag) *osm.Way {
	w := &osm.Way{ID: 1, Visible: true, Version: 1}
	if ids != nil {
		w.Nodes = make(osm.WayNodes, len(ids))
		for i, id := range ids {
			w.Nodes[i] = osm.WayNode{ID: osm.NodeID(id)}
		}
	}
	if tags != nil {
		w.Tags = make(osm.Tags, len(tags))
		for i, t := range tags {
			w.Tags[i] = osm.Tag{Key: t.K, Value: t.V}
		}
	}
	return w
}

// c18CallWay observes Way.Polygon() (twice: the answer is a function of the input).
func c18CallWay(w *osm.Way) (got bool, stable bool, pan any) {
	defer func() {
		if x := recover(); x != nil {
			pan = x
		}
	}()
	a := w.Polygon()
	b := w.Polygon()
	return a, a == b, nil
}

func c18CallRel(r *osm.Relation) (got bool, stable bool, pan any) {
	defer func() {
		if x := recover(); x != nil {
			pan = x
		}
	}()
	a := r.Polygon()
	b := r.Polygon()
	return a, a == b, nil
}

func c18FmtTags(tags []c18Tag) string {
	var sb strings.Builder
	for i, t := range tags {
		if i > 0 {
			sb.WriteByte(' ')
		}
		fmt.Fprintf(&sb, "%q=%q", t.K, t.V)
	}
	return "[" + sb.String() + "]"
}

func c18TagPairs(tags []c18Tag) [][2]string {
	out := make([][2]string, len(tags))
	for i, t := range tags {
		out[i] = [2]string{t.K, t.V}
	}
	return out
}

// way evaluates one tag set, given as one or more orderings (layouts) of the same tags, on
// one node-ref shape. assertShape=false marks shapes the statement is not clear about.
func (ck *c18Checker) way(key, sig string, ids []int64, shapeOK, assertShape bool, layouts ...[]c18Tag) {
	set := c18TagSet(layouts[0])
	strict := c18RefTags(set, false)
	literal := c18RefTags(set, true)
	for _, l := range layouts[1:] {
		s2 := c18TagSet(l)
		if len(s2) != len(set) {
			panic("C18 harness: layouts of one case are different tag sets")
		}
		for k, v := range s2 {
			if w, ok := set[k]; !ok || w != v {
				panic("C18 harness: layouts of one case are different tag sets")
			}
		}
	}
	var first bool
	for i, l := range layouts {
		w := c18Way(ids, l)
		got, stable, pan := c18CallWay(w)
		ck.res.Event(2)
		if pan != nil {
			ck.violate(key+"/panic", "Way.Polygon() panicked (%v) on nodes=%v tags=%s", pan, c18Ids(ids), c18FmtTags(l))
			continue
		}
		ck.afterCall(key, "Way", l, w.Tags, len(ids), len(w.Nodes))
		if !stable {
			ck.violate(key+"/unstable", "two calls of Way.Polygon() on the same way disagree; nodes=%v tags=%s", c18Ids(ids), c18FmtTags(l))
		}
		if i == 0 {
			first = got
		} else if got != first {
			ck.violate(key+"/order", "answer depends on tag order / unrelated-tag position: %v for %s but %v for %s (nodes=%v)",
				first, c18FmtTags(layouts[0]), got, c18FmtTags(l), c18Ids(ids))
		}
		switch {
		case !shapeOK:
			if assertShape && got {
				ck.violate(key, "Way.Polygon()=true for a way that is not closed with more than three node refs: nodes=%v tags=%s", c18Ids(ids), c18FmtTags(l))
			}
		case !assertShape:
			ck.res.Add("shape_grey_zone_runs", 1)
		case strict != literal:
			// rule key present with an empty value on an all/blacklist key: not asserted
			if i == 0 {
				if got == strict {
					ck.res.Add("empty_rule_value_observed_as_absent", 1)
				} else {
					ck.res.Add("empty_rule_value_observed_as_value", 1)
				}
			}
		case got != strict:
			ck.violate(key, "Way.Polygon()=%v, published rules say %v: nodes=%v tags=%s", got, strict, c18Ids(ids), c18FmtTags(l))
		}
		if len(ck.samples) < 3 && i == len(layouts)-1 {
			ck.samples = append(ck.samples, map[string]any{"nodes": c18Ids(ids), "tags": c18TagPairs(l), "layouts": len(layouts),
				"expected": shapeOK && strict, "observed": got})
		}
	}
	ck.res.Eval(sig)
}

func c18Ids(ids []int64) any {
	if len(ids) > 8 {
		return fmt.Sprintf("%d refs, first %d last %d", len(ids), ids[0], ids[len(ids)-1])
	}
	return ids
}

// --- enumeration material --------------------------------------------------------------------

type c18Val struct{ Label, V string }

type c18Area struct {
	Label string
	Has   bool
	V     string
}

var c18AreaClasses = []c18Area{
	{"absent", false, ""}, {"no", true, "no"}, {"yes", true, "yes"}, {"empty", true, ""}, {"other", true, "maybe"},
}

func (a c18Area) with(tags ...c18Tag) []c18Tag {
	if a.Has {
		return append(append([]c18Tag{}, tags...), c18Tag{"area", a.V})
	}
	return append([]c18Tag{}, tags...)
}

var (
	c18Closed4 = []int64{11, 12, 13, 11}
	c18Closed5 = []int64{21, 22, 23, 24, 21}
	c18Open4   = []int64{11, 12, 13, 14}
	c18Closed3 = []int64{11, 12, 11}
)

// c18ListedValues returns every value listed under any key, in the fixed key order and, per
// key, in the order given here (written out again, as ordered lists, only for enumeration;
// c18Stats-style cross-check below makes sure they are the same sets as the maps).
var c18ListedInOrder = []struct {
	Key  string
	Vals []string
}{
	{"aeroway", []string{"taxiway"}},
	{"barrier", []string{"city_wall", "ditch", "hedge", "retaining_wall", "wall", "spikes"}},
	{"highway", []string{"services", "rest_area", "escape", "elevator"}},
	{"man_made", []string{"cutline", "embankment", "pipeline"}},
	{"natural", []string{"coastline", "cliff", "ridge", "arete", "tree_row"}},
	{"power", []string{"plant", "substation", "generator", "transformer"}},
	{"railway", []string{"station", "turntable", "roundhouse", "platform"}},
	{"waterway", []string{"riverbank", "dock", "boatyard", "dam"}},
}

func c18OwnListed(key string) []string {
	for _, e := range c18ListedInOrder {
		if e.Key == key {
			return e.Vals
		}
	}
	return nil
}

func c18CheckListedInOrder() {
	n := 0
	for _, e := range c18ListedInOrder {
		set := c18RuleOnly[e.Key]
		if set == nil {
			set = c18RuleExcept[e.Key]
		}
		if len(set) != len(e.Vals) {
			panic("C18 harness: enumeration list and rule map differ for " + e.Key)
		}
		for _, v := range e.Vals {
			if _, ok := set[v]; !ok {
				panic("C18 harness: enumeration list and rule map differ for " + e.Key + "=" + v)
			}
			n++
		}
	}
	if n != c18WantOnlyVals+c18WantExceptVals {
		panic("C18 harness: enumeration list misses listed values")
	}
}

// c18ValueUniverse: every value listed under any key, near misses of each of them, and the
// representative unlisted / empty / "no"-like values.
func c18ValueUniverse() []c18Val {
	var out []c18Val
	seen := map[string]bool{}
	add := func(label, v string) {
		if !seen[v] {
			seen[v] = true
			out = append(out, c18Val{label, v})
		}
	}
	for _, fixed := range []string{"yes", "no", ""} {
		add(fixed, fixed)
	}
	out[2].Label = "(empty)"
	for _, e := range c18ListedInOrder {
		for _, v := range e.Vals {
			add(v, v)
		}
	}
	for _, e := range c18ListedInOrder {
		for _, v := range e.Vals {
			add(v+"+underscore", v+"_")
			add(v+"+space", v+" ")
			add("space+"+v, " "+v)
			add(v+"-lastchar", v[:len(v)-1])
			add(v+"-firstchar", v[1:])
			add(v+"+upper", strings.ToUpper(v))
			add(v+"+title", strings.ToUpper(v[:1])+v[1:])
			add(v+"+;yes", v+";yes")
			add(v+"+nul", v+"\x00")
		}
	}
	for _, u := range []c18Val{
		{"No", "No"}, {"NO", "NO"}, {"nO", "nO"}, {"no+space", "no "}, {"space+no", " no"}, {"n", "n"}, {"non", "non"},
		{"none", "none"}, {"false", "false"}, {"0", "0"}, {"yes;no", "yes;no"}, {"no;yes", "no;yes"}, {"star", "*"},
		{"space", " "}, {"unlisted_value", "unlisted_value"}, {"a", "a"}, {"zzzz", "zzzz"}, {"nul", "\x00"},
		{"umlaut", "größe"}, {"cjk", "日本語"}, {"long300", strings.Repeat("z", 300)}, {"all", "all"}, {"whitelist", "whitelist"},
		{"residential", "residential"}, {"water", "water"}, {"river", "river"}, {"rail", "rail"}, {"line", "line"},
		{"fence", "fence"}, {"runway", "runway"}, {"pier", "pier"}, {"multipolygon", "multipolygon"},
	} {
		add(u.Label, u.V)
	}
	return out
}

// c18Reps: per-key representative values for the pair enumeration, with their class.
type c18Rep struct {
	c18Val
	Class string // no | empty | listed | unlisted
}

func c18Reps(key string) []c18Rep {
	reps := []c18Rep{{c18Val{"no", "no"}, "no"}, {c18Val{"(empty)", ""}, "empty"}, {c18Val{"yes", "yes"}, "unlisted"}}
	foreign := "services"
	if key == "highway" {
		foreign = "riverbank"
	}
	reps = append(reps, c18Rep{c18Val{foreign, foreign}, "unlisted"})
	for _, v := range c18OwnListed(key) {
		reps = append(reps, c18Rep{c18Val{v, v}, "listed"})
	}
	return reps
}

// hostile unrelated tags: none of the keys is a rule key or "area".
var c18Unrelated = []c18Tag{
	{"name", "no"}, {"type", "multipolygon"}, {"building:levels", "3"}, {"source", "building"}, {"Building", "yes"},
	{"BUILDING", "yes"}, {"building ", "yes"}, {" building", "yes"}, {"buildings", "yes"}, {"build", "yes"},
	{"building:use", "residential"}, {"building:", "yes"}, {":building", "yes"}, {"building_part", "yes"},
	{"building:part:x", "yes"}, {"area:highway:left", "yes"}, {"area:", "yes"}, {"Area", "yes"}, {"AREA", "yes"},
	{"area ", "yes"}, {" area", "yes"}, {"area_1", "yes"}, {"areas", "yes"}, {"are", "yes"}, {"natural:note", "wood"},
	{"highway_1", "services"}, {"highway:", "services"}, {"hgv", "yes"}, {"riverbank", "yes"}, {"services", "highway"},
	{"yes", "building"}, {"", "yes"}, {"no", "no"}, {"landuse:forest", "yes"}, {"land use", "forest"},
	{"note", "area=yes"}, {"amenity;shop", "yes"}, {"amenity:1", "cafe"}, {"public transport", "platform"},
	{"publictransport", "platform"}, {"man-made", "tower"}, {"manmade", "tower"}, {"indoor:level", "1"},
	{"disused:building", "yes"}, {"abandoned:amenity", "school"}, {"was:shop", "yes"}, {"ruins:building", "yes"},
	{"golf:course", "yes"}, {"polygon", "all"}, {"key", "building"}, {"layer", "-1"}, {"oneway", "yes"},
	{"ref", "A 1"}, {"tiger:county", "x"}, {"created_by", "JOSM"}, {"größe", "1"}, {"日本語", "建物"},
}

func c18CheckUnrelated() {
	seen := map[string]bool{}
	for _, u := range c18Unrelated {
		if c18KindOf(u.K) != "" || u.K == "area" || seen[u.K] {
			panic("C18 harness: 'unrelated' tag list contains a rule key, area or a repeat: " + u.K)
		}
		seen[u.K] = true
	}
}

func c18Perms(n int) [][]int {
	var out [][]int
	p := make([]int, n)
	for i := range p {
		p[i] = i
	}
	var rec func(k int)
	rec = func(k int) {
		if k == n {
			out = append(out, append([]int{}, p...))
			return
		}
		for i := k; i < n; i++ {
			p[k], p[i] = p[i], p[k]
			rec(k + 1)
			p[k], p[i] = p[i], p[k]
		}
	}
	rec(0)
	return out
}

func c18Apply(tags []c18Tag, perm []int) []c18Tag {
	out := make([]c18Tag, len(tags))
	for i, j := range perm {
		out[i] = tags[j]
	}
	return out
}

func c18Reverse(tags []c18Tag) []c18Tag {
	out := make([]c18Tag, len(tags))
	for i, t := range tags {
		out[len(tags)-1-i] = t
	}
	return out
}

func c18Rotate(tags []c18Tag, by int) []c18Tag {
	out := make([]c18Tag, 0, len(tags))
	out = append(out, tags[by:]...)
	return append(out, tags[:by]...)
}

// --- case kinds ------------------------------------------------------------------------------

// single: one rule key × the whole value universe × the five area classes, each under several
// tag orders with unrelated tags interleaved, plus the open / 3-ref shapes for the same tags.
func c18Single(ck *c18Checker, key string) {
	u := c18Unrelated
	for vi, val := range c18ValueUniverse() {
		for ai, ar := range c18AreaClasses {
			kv := c18Tag{key, val.V}
			base := ar.with(kv)
			u1, u2, u3 := u[(vi+ai)%len(u)], u[(vi+ai+7)%len(u)], u[(vi+ai+19)%len(u)]
			var mixed, mixed2 []c18Tag
			if ar.Has {
				at := c18Tag{"area", ar.V}
				mixed = []c18Tag{u1, kv, u2, at, u3}
				mixed2 = []c18Tag{u3, at, u2, u1, kv}
			} else {
				mixed = []c18Tag{u1, kv, u2, u3}
				mixed2 = []c18Tag{u3, u2, u1, kv}
			}
			id := fmt.Sprintf("%s=%s/area=%s", key, val.Label, ar.Label)
			ck.way("C18/way/"+id, "w/"+id, c18Closed4, true, true, base, c18Reverse(base))
			ck.way("C18/way/"+id+"/+unrelated", "", c18Closed5, true, true, mixed, mixed2, c18Reverse(mixed), c18Rotate(mixed, 2))
			ck.way("C18/pre/open4/"+id, "", c18Open4, false, true, base)
			ck.way("C18/pre/closed3/"+id, "", c18Closed3, false, true, base)
		}
	}
	// composite values built FROM this key's own list: membership is exact equality with one
	// entry, so anything assembled from entries (joined, affixed, cut) is an unlisted value
	comps := c18CompositeValues(key)
	for vi, val := range comps {
		for ai, ar := range c18AreaClasses {
			kv := c18Tag{key, val.V}
			base := ar.with(kv)
			withUn := append([]c18Tag{u[(vi+ai)%len(u)]}, base...)
			id := fmt.Sprintf("%s=%s/area=%s", key, val.Label, ar.Label)
			ck.way("C18/way/"+id, "w/"+id, c18Closed4, true, true, base, c18Reverse(base))
			ck.way("C18/way/"+id+"/+unrelated", "", c18Closed5, true, true, withUn, c18Reverse(withUn))
		}
	}
	ck.res.Add("composite_values_run", int64(len(comps)))
}

var c18Separators = []string{";", ",", "|", " ", "; ", " ; ", ";;", "\x00", "\n", "/", ":", "_", ""}

// c18CompositeValues: for a whitelist / blacklist key, values assembled from its own listed
// entries — every ordered pair and triple of entries joined by each separator, the whole list
// joined (as listed, reversed, sorted), every entry with a leading / trailing / surrounding
// separator, every entry joined with an unlisted value or an entry of another key, every entry
// doubled, and every contiguous proper substring of an entry. None of them equals an entry
// (those that do are dropped), so all of them are unlisted values for that key.
func c18CompositeValues(key string) []c18Val {
	own := c18OwnListed(key)
	if len(own) == 0 {
		return nil
	}
	set := c18RuleOnly[key]
	if set == nil {
		set = c18RuleExcept[key]
	}
	var out []c18Val
	seen := map[string]bool{}
	add := func(v string) {
		if _, entry := set[v]; entry || seen[v] || v == "" || v == "no" {
			return
		}
		seen[v] = true
		out = append(out, c18Val{fmt.Sprintf("%q", v), v})
	}
	foreign := "services"
	if key == "highway" {
		foreign = "riverbank"
	}
	sorted := append([]string{}, own...)
	sort.Strings(sorted) // generator only: the oracle never needs an order
	reversed := append([]string{}, own...)
	for i, j := 0, len(reversed)-1; i < j; i, j = i+1, j-1 {
		reversed[i], reversed[j] = reversed[j], reversed[i]
	}
	for _, sep := range c18Separators {
		for i, a := range own {
			for j, b := range own {
				if i != j {
					add(a + sep + b)
				}
			}
			add(a + sep + a)
			if sep != "" {
				add(sep + a)
				add(a + sep)
				add(sep + a + sep)
			}
			for _, x := range []string{"yes", "no", foreign, "x"} {
				add(a + sep + x)
				add(x + sep + a)
			}
		}
		add(strings.Join(own, sep))
		add(strings.Join(sorted, sep))
		add(strings.Join(reversed, sep))
		if sep != "" {
			add(sep + strings.Join(sorted, sep) + sep)
		}
	}
	for i, a := range own {
		for j, b := range own {
			for k, c := range own {
				if i != j && j != k && i != k {
					add(a + ";" + b + ";" + c)
				}
			}
		}
	}
	for _, a := range own {
		for from := 0; from < len(a); from++ {
			for to := from + 1; to <= len(a); to++ {
				add(a[from:to])
			}
		}
	}
	return out
}

// pairs: all ordered pairs (key, other key) × representative values of both × area classes.
func c18Pairs(ck *c18Checker, k1 string) {
	for _, k2 := range c18KeyOrder {
		if k2 == k1 {
			continue
		}
		for _, v1 := range c18Reps(k1) {
			for _, v2 := range c18Reps(k2) {
				for _, ar := range c18AreaClasses {
					t1, t2 := c18Tag{k1, v1.V}, c18Tag{k2, v2.V}
					id := fmt.Sprintf("%s=%s,%s=%s/area=%s", k1, v1.Label, k2, v2.Label, ar.Label)
					sig := fmt.Sprintf("p/%s:%s/%s:%s/area=%s", k1, v1.Class, k2, v2.Class, ar.Label)
					var l1, l2 []c18Tag
					if ar.Has {
						at := c18Tag{"area", ar.V}
						l1, l2 = []c18Tag{t1, t2, at}, []c18Tag{at, t2, t1}
					} else {
						l1, l2 = []c18Tag{t1, t2}, []c18Tag{t2, t1}
					}
					ck.way("C18/way/"+id, sig, c18Closed4, true, true, l1, l2)
				}
			}
		}
	}
}

// perm: for every key, representative values and area classes, ALL permutations of the tag
// list {key=value, area?, two unrelated tags}.
func c18Perm(ck *c18Checker, from, to int) {
	for ki := from; ki < to && ki < len(c18KeyOrder); ki++ {
		key := c18KeyOrder[ki]
		for ri, rep := range c18Reps(key) {
			for ai, ar := range c18AreaClasses {
				u1 := c18Unrelated[(ki*3+ri+ai)%len(c18Unrelated)]
				u2 := c18Unrelated[(ki*3+ri+ai+11)%len(c18Unrelated)]
				tags := ar.with(c18Tag{key, rep.V}, u1, u2)
				var layouts [][]c18Tag
				for _, p := range c18Perms(len(tags)) {
					layouts = append(layouts, c18Apply(tags, p))
				}
				id := fmt.Sprintf("%s=%s/area=%s", key, rep.Label, ar.Label)
				ck.res.Add("permutations_run", int64(len(layouts)))
				ck.way("C18/way/"+id+"/allperms", fmt.Sprintf("perm/%s:%s/area=%s/n%d", key, rep.Class, ar.Label, len(tags)), c18Closed5, true, true, layouts...)
			}
		}
	}
}

// unrelated: ways that carry only unrelated (near-miss) tags are never areas; one passing or
// failing rule tag among ALL unrelated tags keeps its answer.
func c18UnrelatedKind(ck *c18Checker) {
	ck.way("C18/way/notags-nil", "u/none", c18Closed4, true, true, nil)
	ck.way("C18/way/notags-empty", "u/none", c18Closed4, true, true, []c18Tag{})
	for _, u := range c18Unrelated {
		ck.way(fmt.Sprintf("C18/way/unrelated/%q=%q", u.K, u.V), "u/one", c18Closed4, true, true, []c18Tag{u})
		for _, ar := range c18AreaClasses[1:] {
			l := ar.with(u)
			ck.way(fmt.Sprintf("C18/way/unrelated/%q=%q/area=%s", u.K, u.V, ar.Label), "u/one/area="+ar.Label, c18Closed4, true, true, l, c18Reverse(l))
		}
	}
	for i, a := range c18Unrelated {
		for j, b := range c18Unrelated {
			if i != j {
				ck.way(fmt.Sprintf("C18/way/unrelated/%q=%q,%q=%q", a.K, a.V, b.K, b.V), "u/two", c18Closed5, true, true, []c18Tag{a, b})
			}
		}
	}
	all := append([]c18Tag{}, c18Unrelated...)
	ck.way("C18/way/unrelated/all", "u/all", c18Closed4, true, true, all, c18Reverse(all), c18Rotate(all, 17))
	for _, key := range c18KeyOrder {
		for _, rep := range c18Reps(key) {
			kv := c18Tag{key, rep.V}
			front := append([]c18Tag{kv}, all...)
			back := append(append([]c18Tag{}, all...), kv)
			mid := append(append(append([]c18Tag{}, all[:23]...), kv), all[23:]...)
			ck.way(fmt.Sprintf("C18/way/%s=%s/area=absent/+all-unrelated", key, rep.Label), "u/all+"+key+":"+rep.Class, c18Closed4, true, true, front, back, mid)
		}
	}
}

// area: many spellings of the area value, alone and against blocking / passing rule tags.
func c18AreaKind(ck *c18Checker) {
	vals := []c18Val{
		{"yes", "yes"}, {"true", "true"}, {"1", "1"}, {"No", "No"}, {"NO", "NO"}, {"nO", "nO"}, {"no+space", "no "}, {"space+no", " no"},
		{"space", " "}, {"false", "false"}, {"0", "0"}, {"none", "none"}, {"n", "n"}, {"non", "non"}, {"no;yes", "no;yes"}, {"yes;no", "yes;no"},
		{"nul", "\x00"}, {"umlaut", "größe"}, {"cjk", "日本語"}, {"long300", strings.Repeat("a", 300)}, {"building", "building"}, {"maybe", "maybe"},
		{"no", "no"}, {"(empty)", ""},
	}
	contexts := []struct {
		label string
		tags  []c18Tag
	}{
		{"alone", nil},
		{"highway=residential", []c18Tag{{"highway", "residential"}}},
		{"building=no", []c18Tag{{"building", "no"}}},
		{"natural=coastline", []c18Tag{{"natural", "coastline"}}},
		{"building=yes", []c18Tag{{"building", "yes"}}},
		{"highway=services", []c18Tag{{"highway", "services"}}},
		{"natural=water,landuse=no", []c18Tag{{"natural", "water"}, {"landuse", "no"}}},
		{"name", []c18Tag{{"name", "no"}, {"type", "boundary"}}},
	}
	for _, v := range vals {
		for _, cx := range contexts {
			l := append([]c18Tag{{"area", v.V}}, cx.tags...)
			id := fmt.Sprintf("area=%s/with/%s", v.Label, cx.label)
			ck.way("C18/way/"+id, "a/"+id, c18Closed4, true, true, l, c18Reverse(l))
			ck.way("C18/pre/open4/"+id, "", c18Open4, false, true, l)
		}
	}
}

// pre: node-ref shapes × tag sets.
func c18Pre(ck *c18Checker) {
	big := func(n int, closed bool) []int64 {
		ids := make([]int64, n)
		for i := range ids {
			ids[i] = int64(1000 + i)
		}
		if closed {
			ids[n-1] = ids[0]
		}
		return ids
	}
	type shape struct {
		label  string
		ids    []int64
		assert bool
	}
	shapes := []shape{
		{"n0-nil", nil, true}, {"n0-empty", []int64{}, true}, {"n1", []int64{1}, true}, {"n2-same", []int64{1, 1}, true}, {"n2-diff", []int64{1, 2}, true},
		{"n3-closed", []int64{1, 2, 1}, true}, {"n3-open", []int64{1, 2, 3}, true}, {"n3-allsame", []int64{1, 1, 1}, true},
		{"n4-closed", []int64{1, 2, 3, 1}, true}, {"n4-open", []int64{1, 2, 3, 4}, true}, {"n4-first-eq-third", []int64{1, 2, 1, 3}, true},
		{"n4-last-pair", []int64{1, 2, 3, 3}, true}, {"n4-first-pair", []int64{1, 1, 2, 3}, true}, {"n4-second-eq-last", []int64{1, 2, 3, 2}, true},
		{"n5-closed", []int64{1, 2, 3, 4, 1}, true}, {"n5-open", []int64{1, 2, 3, 4, 5}, true}, {"n5-inner-loop-open-end", []int64{1, 2, 3, 1, 4}, true},
		{"n5-there-and-back", []int64{1, 2, 3, 2, 1}, true}, {"n6-closed", []int64{1, 2, 3, 4, 5, 1}, true},
		{"n2000-closed", big(2000, true), true}, {"n2000-open", big(2000, false), true},
		{"n4-negative-closed", []int64{-1, -2, -3, -1}, true}, {"n4-negative-open", []int64{-1, -2, -3, -4}, true}, {"n4-sign-differs", []int64{5, 2, 3, -5}, true},
		{"n4-zero-closed", []int64{0, 5, 6, 0}, true}, {"n4-zero-first-only", []int64{0, 5, 6, 7}, true},
		{"n4-differ-by-2^32", []int64{5, 2, 3, 5 + 1<<32}, true}, {"n4-differ-by-2^31", []int64{5, 2, 3, 5 + 1<<31}, true},
		{"n4-big-closed", []int64{1<<40 + 7, 2, 3, 1<<40 + 7}, true}, {"n4-maxint-closed", []int64{1<<63 - 1, 2, 3, 1<<63 - 1}, true},
		// the statement counts refs; a "ring" whose refs are all the same node is left unasserted
		{"n4-allsame", []int64{7, 7, 7, 7}, false},
	}
	tagsets := []struct {
		label string
		tags  []c18Tag
	}{
		{"none-nil", nil}, {"none-empty", []c18Tag{}}, {"building=yes", []c18Tag{{"building", "yes"}}}, {"area=yes", []c18Tag{{"area", "yes"}}},
		{"highway=services", []c18Tag{{"highway", "services"}}}, {"natural=water", []c18Tag{{"natural", "water"}}},
		{"man_made=pier,name", []c18Tag{{"name", "x"}, {"man_made", "pier"}}}, {"area=no,building=yes", []c18Tag{{"area", "no"}, {"building", "yes"}}},
		{"highway=residential", []c18Tag{{"highway", "residential"}}}, {"natural=coastline", []c18Tag{{"natural", "coastline"}}},
		{"name", []c18Tag{{"name", "loop"}}}, {"highway=residential,area=yes", []c18Tag{{"highway", "residential"}, {"area", "yes"}}},
	}
	for _, sh := range shapes {
		ok := c18RefShape(sh.ids)
		for _, ts := range tagsets {
			id := "C18/pre/" + sh.label + "/" + ts.label
			ck.way(id, "pre/"+sh.label+"/"+ts.label, sh.ids, ok, sh.assert, ts.tags)
		}
		ck.res.Put("shapes", sh.label)
	}
	// way nodes carrying versions / coordinates: closedness is about the refs
	for _, ts := range tagsets {
		for _, closed := range []bool{true, false} {
			w := c18Way([]int64{1, 2, 3, 1}, ts.tags)
			for i := range w.Nodes {
				w.Nodes[i].Version = 3
				w.Nodes[i].ChangesetID = 9
				w.Nodes[i].Lat, w.Nodes[i].Lon = 1.5+float64(i%3), 2.5
			}
			label := "annotated-closed"
			if !closed {
				w.Nodes[3].ID = 4
				w.Nodes[3].Lat = w.Nodes[0].Lat // same place, different ref
				label = "annotated-same-coords-different-ref"
			}
			got, _, pan := c18CallWay(w)
			ck.res.Event(2)
			want := closed && c18RefTags(c18TagSet(ts.tags), false)
			if pan != nil || got != want {
				ck.violate("C18/pre/"+label+"/"+ts.label, "Way.Polygon()=%v (panic %v), want %v for annotated way nodes %v tags=%s", got, pan, want, w.Nodes.NodeIDs(), c18FmtTags(ts.tags))
			}
			ck.res.Eval("pre/" + label + "/" + ts.label)
		}
		// Closedness is a property of the node REFS: the two end way-nodes of a closed way may
		// carry different annotations (Way.ApplyUpdatesUpTo rewrites one index at a time, a
		// one-sided annotation, NaN coordinates) and the way is still closed; conversely end
		// nodes that agree in everything but the ref do not close a way.
		wantTags := c18RefTags(c18TagSet(ts.tags), false)
		for _, av := range c18EndVariants() {
			for _, ids := range [][]int64{{1, 2, 3, 1}, {1, 2, 3, 4, 1}, {-7, 2, 3, -7}} {
				for _, closed := range []bool{true, false} {
					w := c18Way(ids, ts.tags)
					for i := 1; i < len(w.Nodes)-1; i++ {
						w.Nodes[i].Version, w.Nodes[i].ChangesetID, w.Nodes[i].Lat, w.Nodes[i].Lon = 2, 8, 3.5, 4.5
					}
					last := len(w.Nodes) - 1
					first := w.Nodes[0].ID
					w.Nodes[0], w.Nodes[last] = av.first, av.last
					w.Nodes[0].ID, w.Nodes[last].ID = first, first
					shape := "closed"
					if !closed {
						// open way: the end nodes differ in the ref (and in whatever av differs in)
						w.Nodes[last].ID = first + 100
						shape = "open"
					}
					got, stable, pan := c18CallWay(w)
					ck.res.Event(2)
					want := closed && wantTags
					key := fmt.Sprintf("C18/pre/end-nodes-%s/%s/n%d/%s", av.label, shape, len(ids), ts.label)
					if pan != nil {
						ck.violate(key+"/panic", "Way.Polygon() panicked (%v) for end way-nodes %+v / %+v", pan, w.Nodes[0], w.Nodes[last])
					} else if !stable || got != want {
						ck.violate(key, "Way.Polygon()=%v (stable %v), want %v: %d refs, end way-nodes %+v / %+v (closedness is equality of the refs), tags=%s",
							got, stable, want, len(ids), w.Nodes[0], w.Nodes[last], c18FmtTags(ts.tags))
					}
					ck.res.Eval(fmt.Sprintf("pre/end-nodes-%s/%s/%s", av.label, shape, ts.label))
					ck.res.Put("end_node_variants", av.label)
				}
			}
		}
	}
}

// c18EndVariants: annotations of the first / last way node of a ring. Every non-empty subset
// of {version, changeset, lat, lon} differing between the two ends, identical annotations,
// one-sided annotations, and NaN coordinates (NaN != NaN even when both ends are "the same").
type c18EndVariant struct {
	label       string
	first, last osm.WayNode
}

func c18EndVariants() []c18EndVariant {
	base := osm.WayNode{Version: 3, ChangesetID: 9, Lat: 1.5, Lon: 2.5}
	out := []c18EndVariant{{"same", base, base}, {"bare", osm.WayNode{}, osm.WayNode{}},
		{"first-only-annotated", base, osm.WayNode{}}, {"last-only-annotated", osm.WayNode{}, base}}
	names := []string{"version", "changeset", "lat", "lon"}
	for mask := 1; mask < 16; mask++ {
		l := base
		var parts []string
		for bit, n := range names {
			if mask&(1<<bit) == 0 {
				continue
			}
			parts = append(parts, n)
			switch bit {
			case 0:
				l.Version = 4
			case 1:
				l.ChangesetID = 10
			case 2:
				l.Lat = 1.5000001
			case 3:
				l.Lon = -2.5
			}
		}
		out = append(out, c18EndVariant{"differ-" + strings.Join(parts, "+"), base, l})
		out = append(out, c18EndVariant{"differ-" + strings.Join(parts, "+") + "-swapped", l, base})
	}
	nan := math.NaN()
	nl, no, nb := base, base, base
	nl.Lat, no.Lon = nan, nan
	nb.Lat, nb.Lon = nan, nan
	out = append(out, c18EndVariant{"nan-lat-both-ends", nl, nl}, c18EndVariant{"nan-lon-both-ends", no, no},
		c18EndVariant{"nan-latlon-both-ends", nb, nb}, c18EndVariant{"nan-lat-first-only", nl, base}, c18EndVariant{"nan-lon-last-only", base, no},
		c18EndVariant{"zero-vs-negzero-lat", osm.WayNode{Lat: 0}, osm.WayNode{Lat: math.Copysign(0, -1)}})
	return out
}

// rel: Relation.Polygon() ⇔ type ∈ {multipolygon, boundary}.
func c18Rel(ck *c18Checker) {
	types := []c18Val{
		{"multipolygon", "multipolygon"}, {"boundary", "boundary"}, {"(empty)", ""}, {"Multipolygon", "Multipolygon"}, {"MULTIPOLYGON", "MULTIPOLYGON"},
		{"Boundary", "Boundary"}, {"multipolygon+space", "multipolygon "}, {"space+boundary", " boundary"}, {"multipolygon;boundary", "multipolygon;boundary"},
		{"boundary;multipolygon", "boundary;multipolygon"}, {"multipolygo", "multipolygo"}, {"multipolygons", "multipolygons"}, {"ultipolygon", "ultipolygon"},
		{"boundar", "boundar"}, {"boundaries", "boundaries"}, {"oundary", "oundary"}, {"multi", "multi"}, {"polygon", "polygon"}, {"route", "route"},
		{"restriction", "restriction"}, {"site", "site"}, {"yes", "yes"}, {"no", "no"}, {"area", "area"}, {"multilinestring", "multilinestring"},
		{"collection", "collection"}, {"building", "building"}, {"waterway", "waterway"}, {"public_transport", "public_transport"},
		{"associatedStreet", "associatedStreet"}, {"multipolygon+nul", "multipolygon\x00"}, {"long300", strings.Repeat("m", 300)}, {"cjk", "境界"},
	}
	contexts := []struct {
		label string
		tags  []c18Tag
	}{
		{"alone", nil},
		{"boundary=administrative", []c18Tag{{"boundary", "administrative"}, {"admin_level", "8"}}},
		{"area=no", []c18Tag{{"area", "no"}}},
		{"area=yes,building=yes", []c18Tag{{"area", "yes"}, {"building", "yes"}}},
		{"near-miss-type-keys", []c18Tag{{"Type", "multipolygon"}, {"type ", "boundary"}, {"type:", "multipolygon"}, {"TYPE", "boundary"}, {"types", "multipolygon"}, {"typ", "boundary"}, {"", "multipolygon"}}},
		{"values-as-keys", []c18Tag{{"multipolygon", "yes"}, {"boundary", "type"}, {"name", "multipolygon"}}},
	}
	members := c18MemberShapes()
	metas := c18RelMetas()
	run := func(key, sig string, want bool, m c18MemberShape, layouts ...[]c18Tag) {
		for li, l := range layouts {
			c18TagSet(l) // no repeated keys
			// the relation's own identity / metadata rotates with the layout: it must not matter
			meta := metas[(li+len(l)+len(m.ms))%len(metas)]
			r := meta.mk()
			r.Members = m.ms
			if l != nil {
				r.Tags = make(osm.Tags, len(l))
				for i, t := range l {
					r.Tags[i] = osm.Tag{Key: t.K, Value: t.V}
				}
			}
			got, stable, pan := c18CallRel(r)
			ck.res.Event(2)
			ck.res.Put("relation_metas", meta.label)
			if pan != nil {
				ck.violate(key+"/panic", "Relation.Polygon() panicked (%v) on tags=%s members=%s", pan, c18FmtTags(l), m.label)
			} else if !stable {
				ck.violate(key+"/unstable", "two calls of Relation.Polygon() disagree on tags=%s members=%s", c18FmtTags(l), m.label)
			} else if ck.afterCall(key, "Relation", l, r.Tags, len(m.ms), len(r.Members)); got != want {
				ck.violate(key, "Relation.Polygon()=%v, want %v (the answer is a function of the type tag only: multipolygon or boundary): tags=%s members=%s (%d) relation=%s",
					got, want, c18FmtTags(l), m.label, len(m.ms), meta.label)
			}
			if len(ck.samples) < 3 {
				ck.samples = append(ck.samples, map[string]any{"relation_tags": c18TagPairs(l), "members": m.label, "relation": meta.label, "expected": want, "observed": got})
			}
		}
		ck.res.Eval(sig)
	}
	for _, m := range members {
		for _, cx := range contexts {
			// no type tag at all
			id := fmt.Sprintf("type=(absent)/%s/%s", cx.label, m.label)
			if cx.tags == nil {
				run("C18/rel/"+id, "rel/"+id, false, m, nil, []c18Tag{})
			} else {
				run("C18/rel/"+id, "rel/"+id, false, m, cx.tags, c18Reverse(cx.tags))
			}
			for _, t := range types {
				want := t.V == "multipolygon" || t.V == "boundary"
				tt := c18Tag{"type", t.V}
				front := append([]c18Tag{tt}, cx.tags...)
				back := append(append([]c18Tag{}, cx.tags...), tt)
				layouts := [][]c18Tag{front, back}
				if len(cx.tags) > 1 {
					mid := append(append(append([]c18Tag{}, cx.tags[:1]...), tt), cx.tags[1:]...)
					layouts = append(layouts, mid)
				}
				id := fmt.Sprintf("type=%s/%s/%s", t.Label, cx.label, m.label)
				run("C18/rel/"+id, "rel/"+id, want, m, layouts...)
			}
		}
		ck.res.Put("member_shapes", m.label)
	}
	// every relation identity / metadata variant × every member shape × the deciding types
	for _, meta := range metas {
		for _, m := range members {
			for _, t := range []string{"multipolygon", "boundary", "route", ""} {
				r := meta.mk()
				r.Members = m.ms
				r.Tags = osm.Tags{{Key: "name", Value: "x"}, {Key: "type", Value: t}}
				got, stable, pan := c18CallRel(r)
				ck.res.Event(2)
				want := t == "multipolygon" || t == "boundary"
				key := fmt.Sprintf("C18/rel/type=%s/relation=%s/%s", t, meta.label, m.label)
				if pan != nil || !stable || got != want {
					ck.violate(key, "Relation.Polygon()=%v (panic %v, stable %v), want %v: type=%q relation=%s members=%s", got, pan, stable, want, t, meta.label, m.label)
				}
				ck.res.Eval(fmt.Sprintf("rel/meta/%s/%s/type=%s", meta.label, m.label, t))
			}
		}
	}
	// A tag list that repeats the type key is not a tag set and the statement does not say
	// which occurrence counts (Tags.Find returns the first, undocumented): asserted only where
	// every occurrence gives the same answer, otherwise run and counted.
	dupVals := []string{"multipolygon", "boundary", "route", "", "Multipolygon"}
	isArea := func(v string) bool { return v == "multipolygon" || v == "boundary" }
	for _, a := range dupVals {
		for _, b := range dupVals {
			for _, m := range members {
				r := &osm.Relation{ID: 5, Members: m.ms, Tags: osm.Tags{{Key: "type", Value: a}, {Key: "note", Value: "x"}, {Key: "type", Value: b}}}
				got, _, pan := c18CallRel(r)
				ck.res.Event(2)
				switch {
				case pan != nil:
					ck.violate(fmt.Sprintf("C18/rel/duplicate-type/%s,%s/%s/panic", a, b, m.label), "Relation.Polygon() panicked (%v) on a repeated type key", pan)
				case isArea(a) == isArea(b):
					if got != isArea(a) {
						ck.violate(fmt.Sprintf("C18/rel/duplicate-type/%s,%s/%s", a, b, m.label), "Relation.Polygon()=%v, want %v: both type=%q and type=%q say so; members=%s", got, isArea(a), a, b, m.label)
					}
					ck.res.Eval(fmt.Sprintf("rel/dup/%s,%s/%s", a, b, m.label))
				default:
					if got == isArea(a) {
						ck.res.Add("duplicate_type_first_occurrence_wins", 1)
					} else {
						ck.res.Add("duplicate_type_other_occurrence_wins", 1)
					}
				}
			}
		}
	}
}

// c18MemberShapes: every shape of member list. The relation answer must not depend on it.
type c18MemberShape struct {
	label string
	ms    osm.Members
}

func c18MemberShapes() []c18MemberShape {
	n := func(ref int64, role string) osm.Member { return osm.Member{Type: osm.TypeNode, Ref: ref, Role: role} }
	w := func(ref int64, role string) osm.Member { return osm.Member{Type: osm.TypeWay, Ref: ref, Role: role} }
	r := func(ref int64, role string) osm.Member {
		return osm.Member{Type: osm.TypeRelation, Ref: ref, Role: role}
	}
	many := func(t osm.Type, k int) osm.Members {
		ms := make(osm.Members, k)
		for i := range ms {
			ms[i] = osm.Member{Type: t, Ref: int64(100 + i)}
		}
		return ms
	}
	annotatedWay := w(7, "outer")
	annotatedWay.Version, annotatedWay.ChangesetID, annotatedWay.Lat, annotatedWay.Lon, annotatedWay.Orientation = 3, 9, 1.5, 2.5, 1
	annotatedWay.Nodes = osm.WayNodes{{ID: 1, Lat: 1, Lon: 1}, {ID: 2, Lat: 1, Lon: 2}, {ID: 3, Lat: 2, Lon: 2}, {ID: 1, Lat: 1, Lon: 1}}
	annotatedNode := n(8, "label")
	annotatedNode.Version, annotatedNode.Lat, annotatedNode.Lon = 2, 50.1, 8.6
	return []c18MemberShape{
		{"members-nil", nil},
		{"members-empty", osm.Members{}},
		{"one-node", osm.Members{n(1, "label")}},
		{"one-way", osm.Members{w(1, "outer")}},
		{"one-relation", osm.Members{r(1, "subarea")}},
		{"only-nodes", osm.Members{n(1, "admin_centre"), n(2, "label"), n(3, "")}},
		{"only-relations", osm.Members{r(1, "subarea"), r(2, "subarea"), r(3, "")}},
		{"nodes+relations", osm.Members{n(1, "label"), r(2, "subarea"), n(3, "admin_centre"), r(4, "")}},
		{"only-ways", osm.Members{w(1, "outer"), w(2, "inner"), w(3, "")}},
		{"way-first", osm.Members{w(1, "outer"), n(2, "label"), r(3, "subarea")}},
		{"way-last", osm.Members{n(2, "label"), r(3, "subarea"), w(1, "outer")}},
		{"way-middle", osm.Members{n(2, "label"), w(1, "outer"), r(3, "subarea")}},
		{"annotated-way+node", osm.Members{annotatedNode, annotatedWay}},
		{"annotated-node-only", osm.Members{annotatedNode}},
		{"unknown-member-types", osm.Members{{Type: "", Ref: 1}, {Type: "changeset", Ref: 2}, {Type: "Way", Ref: 3, Role: "outer"}}},
		{"self-reference", osm.Members{r(5, "")}},
		{"500-nodes", many(osm.TypeNode, 500)},
		{"500-relations", many(osm.TypeRelation, 500)},
		{"500-ways", many(osm.TypeWay, 500)},
	}
}

// c18RelMetas: identity / metadata of the relation itself. Must not matter either.
type c18RelMeta struct {
	label string
	mk    func() *osm.Relation
}

func c18RelMetas() []c18RelMeta {
	ts := time.Date(2020, 2, 3, 4, 5, 6, 0, time.UTC)
	return []c18RelMeta{
		{"id5-visible", func() *osm.Relation { return &osm.Relation{ID: 5, Visible: true} }},
		{"zero-value", func() *osm.Relation { return &osm.Relation{} }},
		{"negative-id", func() *osm.Relation { return &osm.Relation{ID: -3, Version: 0} }},
		{"big-id-v65535", func() *osm.Relation { return &osm.Relation{ID: 1<<40 + 1, Version: 65535, Visible: true} }},
		{"deleted-version", func() *osm.Relation { return &osm.Relation{ID: 9, Version: 7, Visible: false, Timestamp: ts} }},
		{"full-metadata", func() *osm.Relation {
			return &osm.Relation{ID: 77, User: "someone", UserID: 12, Visible: true, Version: 3, ChangesetID: 4, Timestamp: ts,
				Updates: osm.Updates{{Index: 0, Version: 2, Timestamp: ts}}, Bounds: &osm.Bounds{MinLat: 1, MaxLat: 2, MinLon: 3, MaxLon: 4}}
		}},
	}
}

// multi: PRNG tag sets of several rule keys, an area class and unrelated tags; the reference
// answer must be observed under the generated order, its reverse, every rotation and several
// shuffles.
func c18Multi(ck *c18Checker, r *gen.R, n int) {
	universe := c18ValueUniverse()
	for i := 0; i < n; i++ {
		var tags []c18Tag
		nRule := r.Pick(0, 1, 1, 2, 2, 3, 4, 6)
		kp := r.Perm(len(c18KeyOrder))
		for _, ki := range kp[:nRule] {
			key := c18KeyOrder[ki]
			var v string
			switch r.Intn(8) {
			case 0:
				v = "no"
			case 1:
				v = "yes"
			case 2:
				v = ""
			case 3, 4:
				if own := c18OwnListed(key); len(own) > 0 {
					v = own[r.Intn(len(own))]
				} else {
					v = r.Word()
				}
			case 5:
				v = universe[r.Intn(len(universe))].V
			case 6:
				v = r.Word()
			default:
				v = r.Str(6)
			}
			tags = append(tags, c18Tag{key, v})
		}
		ar := c18AreaClasses[r.Pick(0, 0, 0, 0, 1, 2, 3, 4)]
		if ar.Has {
			v := ar.V
			if ar.Label == "other" && r.Bool() {
				v = r.StrNonEmpty(5)
			}
			tags = append(tags, c18Tag{"area", v})
		}
		nUn := r.Pick(0, 0, 1, 2, 3, 5)
		up := r.Perm(len(c18Unrelated))
		for _, ui := range up[:nUn] {
			tags = append(tags, c18Unrelated[ui])
		}
		if r.Chance(0.3) { // a PRNG key that is neither a rule key nor area nor already used
			k := r.Str(8)
			used := k == "area" || c18KindOf(k) != ""
			for _, t := range tags {
				used = used || t.K == k
			}
			if !used {
				tags = append(tags, c18Tag{k, r.PickS("yes", "no", "", "services", "coastline")})
			}
		}
		r.Shuffle(len(tags), func(a, b int) { tags[a], tags[b] = tags[b], tags[a] })
		layouts := [][]c18Tag{tags}
		if len(tags) > 1 {
			layouts = append(layouts, c18Reverse(tags))
			for by := 1; by < len(tags); by++ {
				layouts = append(layouts, c18Rotate(tags, by))
			}
			for s := 0; s < 4; s++ {
				l := append([]c18Tag{}, tags...)
				r.Shuffle(len(l), func(a, b int) { l[a], l[b] = l[b], l[a] })
				layouts = append(layouts, l)
			}
		}
		ids := c18Closed4
		shapeOK := true
		switch r.Intn(10) {
		case 0:
			ids, shapeOK = c18Open4, false
		case 1:
			ids, shapeOK = c18Closed3, false
		case 2:
			ids = c18Closed5
		}
		// key: the canonical (sorted) tag set, independent of seed and case index
		canon := make([]string, len(tags))
		for j, t := range tags {
			canon[j] = fmt.Sprintf("%q=%q", t.K, t.V)
		}
		sort.Strings(canon)
		set := c18TagSet(tags)
		sig := fmt.Sprintf("m/rule%d/area=%s/unrel%d/shape=%v/want=%v", nRule, ar.Label, nUn, shapeOK, c18RefTags(set, false))
		ck.way(fmt.Sprintf("C18/way/multi/%d-refs/%s", len(ids), strings.Join(canon, ",")), sig, ids, shapeOK, true, layouts...)
		ck.res.SetMax("multi_tags", int64(len(tags)))
		ck.res.Add("multi_layouts_run", int64(len(layouts)))
	}
}

// c18Cold: the library's very first use in a process, by many goroutines at once. The rule
// table is package state built at start-up; the answer must not depend on who asks first.
func c18Cold(c fw.Case) *fw.Result {
	res := fw.NewResult()
	type q struct {
		w    *osm.Way
		want bool
		desc string
	}
	var qs []q
	ring := []int64{1, 2, 3, 4, 1}
	for _, key := range c18KeyOrder {
		vals := append([]string{"yes", "no", "unlisted_value"}, c18OwnListed(key)...)
		for _, v := range vals {
			tags := []c18Tag{{key, v}}
			qs = append(qs, q{c18Way(ring, tags), c18RefTags(c18TagSet(tags), false), key + "=" + v})
		}
	}
	const G = 64
	start := make(chan struct{})
	var wg sync.WaitGroup
	var mu sync.Mutex
	wrong := map[string]int{}
	var calls atomic.Int64
	for g := 0; g < G; g++ {
		wg.Add(1)
		go func(g int) {
			defer wg.Done()
			<-start
			for i := range qs {
				x := qs[(i+g*7)%len(qs)]
				if got := x.w.Polygon(); got != x.want {
					mu.Lock()
					wrong[x.desc]++
					mu.Unlock()
				}
				calls.Add(1)
			}
		}(g)
	}
	close(start)
	wg.Wait()
	res.Event(calls.Load())
	res.Add("coldstart_concurrent_calls", calls.Load())
	if len(wrong) > 0 {
		var ex []string
		for d, n := range wrong {
			ex = append(ex, fmt.Sprintf("%s (%d×)", d, n))
			if len(ex) >= 8 {
				break
			}
		}
		res.Violatef("C18/coldstart/concurrent-first-use", "Way.Polygon() gave wrong answers while %d goroutines made the first calls of the process concurrently: %s", G, strings.Join(ex, ", "))
	}
	res.Eval("coldstart/" + c.Variant)
	res.Sample = map[string]any{"goroutines": G, "queries": len(qs), "variant": c.Variant}
	return res
}

// c18Shared: concurrent READERS of one shared object. Polygon() is a predicate; several
// goroutines asking the same *Way (or *Relation) at once must all get the single-threaded
// answer, and the object must afterwards still be the same tag set with the same answer.
// Ways carry 9..40 tags in a non-sorted order; each round uses a fresh way (any hidden
// first-call work happens once per object) and releases the goroutines together (all parked on one channel that is then closed).
func c18Shared(c fw.Case) *fw.Result {
	res := fw.NewResult()
	c18Stats()
	c18CheckUnrelated()
	ck := &c18Checker{res: res, kind: c.Kind}
	r := gen.New(c.Seed, "c18shared")
	rounds := int(c.Int("rounds"))
	var examples []any
	for round := 0; round < rounds; round++ {
		class := []string{"one-passing-tag", "passing-tags+area=no", "failing-tags+area=yes", "nothing-passes", "blacklisted-only"}[round%5]
		var tags []c18Tag
		switch class {
		case "one-passing-tag":
			k := c18KeyOrder[r.Intn(len(c18KeyOrder))]
			v := "yes"
			if own := c18OwnListed(k); len(own) > 0 && c18KindOf(k) == "whitelist" {
				v = own[r.Intn(len(own))]
			}
			tags = append(tags, c18Tag{k, v})
		case "passing-tags+area=no":
			tags = append(tags, c18Tag{"area", "no"}, c18Tag{"building", "yes"}, c18Tag{"natural", "water"}, c18Tag{"highway", "services"})
		case "failing-tags+area=yes":
			tags = append(tags, c18Tag{"area", "yes"}, c18Tag{"highway", "residential"}, c18Tag{"building", "no"}, c18Tag{"natural", "coastline"})
		case "nothing-passes":
			tags = append(tags, c18Tag{"highway", "residential"}, c18Tag{"railway", "rail"}, c18Tag{"barrier", "fence"}, c18Tag{"landuse", "no"})
		case "blacklisted-only":
			tags = append(tags, c18Tag{"natural", "tree_row"}, c18Tag{"man_made", "pipeline"}, c18Tag{"aeroway", "taxiway"})
		}
		n := r.Range(9, 40)
		up := r.Perm(len(c18Unrelated))
		for i := 0; len(tags) < n; i++ {
			if i < len(up) && r.Chance(0.6) {
				tags = append(tags, c18Unrelated[up[i]])
			} else {
				tags = append(tags, c18Tag{fmt.Sprintf("x%c%03d", 'a'+rune(r.Intn(26)), round*50+i), r.PickS("yes", "no", "services", "1", "")})
			}
		}
		for tries := 0; ; tries++ {
			r.Shuffle(len(tags), func(a, b int) { tags[a], tags[b] = tags[b], tags[a] })
			sorted := true
			for i := 1; i < len(tags); i++ {
				if tags[i-1].K > tags[i].K {
					sorted = false
				}
			}
			if !sorted || tries > 10 {
				break
			}
		}
		want := c18RefTags(c18TagSet(tags), false)
		G := []int{8, 12, 16}[round%3]
		const callsPer = 3

		// --- way ---
		w := c18Way(c18Closed5, tags)
		answers := make([][callsPer]int8, G) // 0 false, 1 true, 2 panic
		var ready sync.WaitGroup
		var done sync.WaitGroup
		goCh := make(chan struct{})
		ready.Add(G)
		done.Add(G)
		for g := 0; g < G; g++ {
			go func(g int) {
				defer done.Done()
				ready.Done()
				<-goCh
				for i := 0; i < callsPer; i++ {
					func() {
						defer func() {
							if recover() != nil {
								answers[g][i] = 2
							}
						}()
						if w.Polygon() {
							answers[g][i] = 1
						}
					}()
				}
			}(g)
		}
		ready.Wait()
		close(goCh)
		done.Wait()
		res.Event(int64(G * callsPer))
		res.Add("shared_concurrent_calls", int64(G*callsPer))
		wrong, panics := 0, 0
		for g := range answers {
			for _, a := range answers[g] {
				if a == 2 {
					panics++
				} else if (a == 1) != want {
					wrong++
				}
			}
		}
		if panics > 0 {
			ck.violate("C18/shared/way/"+class+"/panic", "Way.Polygon() panicked in %d of %d concurrent calls on one shared way with %d tags", panics, G*callsPer, len(tags))
		}
		if wrong > 0 {
			ck.violate("C18/shared/way/"+class+"/concurrent-answer", "%d of %d concurrent Way.Polygon() calls (%d goroutines) on ONE shared, never written way answered %v, the rules say %v: tags=%s",
				wrong, G*callsPer, G, !want, want, c18FmtTags(tags))
			res.Add("shared_rounds_with_wrong_concurrent_answer", 1)
		}
		if got, _, pan := c18CallWay(w); pan != nil || got != want {
			ck.violate("C18/shared/way/"+class+"/answer-after", "after %d goroutines only READ the way concurrently, a single-threaded Way.Polygon() answers %v (panic %v), the rules say %v: original tags=%s, tags now=%s",
				G, got, pan, want, c18FmtTags(tags), c18FmtOsmTags(w.Tags))
		}
		ck.afterCall("C18/shared/way/"+class, "concurrent Way", tags, w.Tags, len(c18Closed5), len(w.Nodes))
		res.Eval(fmt.Sprintf("shared/way/%s/g%d/n%d", class, G, len(tags)/8*8))
		res.SetMax("shared_tags", int64(len(tags)))

		// --- relation ---
		if round%4 == 0 {
			typ := []string{"multipolygon", "boundary", "route", ""}[(round/4)%4]
			rtags := append([]c18Tag{}, tags...)
			for i := range rtags { // no rule meaning for relations; put the type tag somewhere inside
				if rtags[i].K == "type" {
					rtags[i] = c18Tag{"type_", rtags[i].V}
				}
			}
			rtags[len(rtags)/2] = c18Tag{"type", typ}
			rel := &osm.Relation{ID: 3, Members: osm.Members{{Type: osm.TypeNode, Ref: 1, Role: "label"}, {Type: osm.TypeWay, Ref: 2, Role: "outer"}}}
			for _, t := range rtags {
				rel.Tags = append(rel.Tags, osm.Tag{Key: t.K, Value: t.V})
			}
			rwant := typ == "multipolygon" || typ == "boundary"
			var rwrong atomic.Int64
			var rready, rdone sync.WaitGroup
			rgo := make(chan struct{})
			rready.Add(G)
			rdone.Add(G)
			for g := 0; g < G; g++ {
				go func() {
					defer rdone.Done()
					defer func() {
						if recover() != nil {
							rwrong.Add(1)
						}
					}()
					rready.Done()
					<-rgo
					for i := 0; i < callsPer; i++ {
						if rel.Polygon() != rwant {
							rwrong.Add(1)
						}
					}
				}()
			}
			rready.Wait()
			close(rgo)
			rdone.Wait()
			res.Event(int64(G * callsPer))
			res.Add("shared_concurrent_calls", int64(G*callsPer))
			if rwrong.Load() > 0 {
				ck.violate("C18/shared/rel/type="+typ+"/concurrent-answer", "%d concurrent Relation.Polygon() calls on one shared relation answered %v (or panicked), want %v", rwrong.Load(), !rwant, rwant)
			}
			if got, _, pan := c18CallRel(rel); pan != nil || got != rwant {
				ck.violate("C18/shared/rel/type="+typ+"/answer-after", "after concurrent reads a single-threaded Relation.Polygon() answers %v (panic %v), want %v", got, pan, rwant)
			}
			ck.afterCall("C18/shared/rel/type="+typ, "concurrent Relation", rtags, rel.Tags, 2, len(rel.Members))
			res.Eval(fmt.Sprintf("shared/rel/type=%s/g%d", typ, G))
		}
		if len(examples) < 2 {
			examples = append(examples, map[string]any{"class": class, "goroutines": G, "calls_each": callsPer, "tags": c18TagPairs(tags), "expected": want, "wrong_concurrent_answers": wrong})
		}
	}
	res.Sample = map[string]any{"variant": c.Variant, "rounds": rounds, "examples": examples}
	return res
}

// --- config: exported package-level state of the root package must not leak into the answer ---
//
// Exported, assignable package-level variables of github.com/paulmach/osm (everything else
// exported at package level is a const or a type): UninterestingTags (map, documented as the
// list behind Tags.AnyInteresting, user-extensible), CustomJSONMarshaler,
// CustomJSONUnmarshaler (codec hooks), CommitInfoStart (time), ErrScannerClosed (error).
// The classification is defined on the way's node refs and tag set (relation: type tag), so
// it must give the same answers whatever an application has put into those variables.

type c18HostileCodec struct{}

func (c18HostileCodec) Marshal(v interface{}) ([]byte, error) { return []byte("[]"), errC18Codec }
func (c18HostileCodec) Unmarshal(data []byte, v interface{}) error {
	return errC18Codec
}

var errC18Codec = fmt.Errorf("C18 harness: hostile codec")

type c18Config struct {
	label string
	apply func()
}

func c18Configs() []c18Config {
	setAll := func(m map[string]bool, keys []string, v bool) {
		for _, k := range keys {
			m[k] = v
		}
	}
	ruleKeysAndArea := append(append([]string{}, c18KeyOrder...), "area")
	var stock []string
	for k := range osm.UninterestingTags {
		stock = append(stock, k)
	}
	codecs := func() {
		osm.CustomJSONMarshaler, osm.CustomJSONUnmarshaler = c18HostileCodec{}, c18HostileCodec{}
		osm.CommitInfoStart = time.Date(2100, 1, 1, 0, 0, 0, 0, time.UTC)
		osm.ErrScannerClosed = nil
	}
	return []c18Config{
		{"stock", func() {}},
		{"uninteresting+all-rule-keys+area", func() { setAll(osm.UninterestingTags, ruleKeysAndArea, true) }},
		{"uninteresting+power,area,indoor", func() { setAll(osm.UninterestingTags, []string{"power", "area", "indoor"}, true) }},
		{"uninteresting+type,name,building:levels", func() { setAll(osm.UninterestingTags, []string{"type", "name", "building:levels", ""}, true) }},
		{"uninteresting-stock-removed", func() {
			for _, k := range stock {
				delete(osm.UninterestingTags, k)
			}
		}},
		{"uninteresting-stock-false+rule-keys-false", func() {
			setAll(osm.UninterestingTags, stock, false)
			setAll(osm.UninterestingTags, ruleKeysAndArea, false)
		}},
		{"uninteresting-nil", func() { osm.UninterestingTags = nil }},
		{"uninteresting-replaced-by-rule-keys-only", func() {
			m := map[string]bool{}
			setAll(m, ruleKeysAndArea, true)
			osm.UninterestingTags = m
		}},
		{"hostile-codecs+commit-start+errscannerclosed", codecs},
		{"everything", func() {
			setAll(osm.UninterestingTags, ruleKeysAndArea, true)
			setAll(osm.UninterestingTags, []string{"type", "name"}, true)
			codecs()
		}},
	}
}

func c18ConfigKind(ck *c18Checker) {
	// save, and restore whatever happens, so that later cases of this process see stock state
	origMap := osm.UninterestingTags
	origContent := map[string]bool{}
	for k, v := range origMap {
		origContent[k] = v
	}
	origM, origU, origStart, origErr := osm.CustomJSONMarshaler, osm.CustomJSONUnmarshaler, osm.CommitInfoStart, osm.ErrScannerClosed
	restore := func() {
		for k := range origMap {
			delete(origMap, k)
		}
		for k, v := range origContent {
			origMap[k] = v
		}
		osm.UninterestingTags = origMap
		osm.CustomJSONMarshaler, osm.CustomJSONUnmarshaler, osm.CommitInfoStart, osm.ErrScannerClosed = origM, origU, origStart, origErr
	}
	defer restore()

	stockTags := []c18Tag{{"source", "survey"}, {"created_by", "JOSM"}, {"tiger:tlid", "1"}}
	members := c18MemberShapes()
	for _, cfg := range c18Configs() {
		restore()
		cfg.apply()
		pre := "C18/config/" + cfg.label
		// ways: every key × representative value × area class, alone, among the stock
		// "uninteresting" tags and next to a hostile unrelated tag
		for ki, key := range c18KeyOrder {
			for ri, rep := range c18Reps(key) {
				for ai, ar := range c18AreaClasses {
					kv := c18Tag{key, rep.V}
					base := ar.with(kv)
					withStock := append(append([]c18Tag{stockTags[0]}, base...), stockTags[1], stockTags[2])
					un := c18Unrelated[(ki+ri+ai)%len(c18Unrelated)]
					withUn := append([]c18Tag{un}, base...)
					id := fmt.Sprintf("%s=%s/area=%s", key, rep.Label, ar.Label)
					ck.way(pre+"/way/"+id, fmt.Sprintf("cfg/%s/%s:%s/area=%s", cfg.label, key, rep.Class, ar.Label), c18Closed4, true, true, base, c18Reverse(base))
					ck.way(pre+"/way/"+id+"/+stock-uninteresting", "", c18Closed5, true, true, withStock, c18Reverse(withStock))
					ck.way(pre+"/way/"+id+"/+unrelated", "", c18Closed4, true, true, withUn)
				}
			}
		}
		// ways with no rule key: nothing, only stock uninteresting tags, only area, only unrelated
		ck.way(pre+"/way/notags", "cfg/"+cfg.label+"/notags", c18Closed4, true, true, nil)
		ck.way(pre+"/way/only-stock-uninteresting", "cfg/"+cfg.label+"/only-stock", c18Closed4, true, true, stockTags, c18Reverse(stockTags))
		for _, ar := range c18AreaClasses[1:] {
			l := ar.with()
			ls := ar.with(stockTags...)
			ck.way(pre+"/way/only-area="+ar.Label, "cfg/"+cfg.label+"/only-area="+ar.Label, c18Closed4, true, true, l)
			ck.way(pre+"/way/stock-uninteresting+area="+ar.Label, "cfg/"+cfg.label+"/stock+area="+ar.Label, c18Closed4, true, true, ls, c18Reverse(ls))
		}
		for _, u := range c18Unrelated {
			ck.way(fmt.Sprintf("%s/way/unrelated/%q=%q", pre, u.K, u.V), "", c18Closed4, true, true, []c18Tag{u})
		}
		ck.way(pre+"/pre/open4/building=yes", "", c18Open4, false, true, []c18Tag{{"building", "yes"}})
		// relations: the deciding types × member shapes, type alone and among other tags
		for _, m := range members {
			for _, t := range []string{"multipolygon", "boundary", "route", "", "Boundary"} {
				for li, l := range [][]c18Tag{{{"type", t}}, {{"source", "x"}, {"type", t}, {"name", "n"}}} {
					r := &osm.Relation{ID: 5, Members: m.ms}
					for _, tg := range l {
						r.Tags = append(r.Tags, osm.Tag{Key: tg.K, Value: tg.V})
					}
					got, stable, pan := c18CallRel(r)
					ck.res.Event(2)
					want := t == "multipolygon" || t == "boundary"
					if pan != nil || !stable || got != want {
						ck.violate(fmt.Sprintf("%s/rel/type=%s/%s", pre, t, m.label), "with package state %q: Relation.Polygon()=%v (panic %v, stable %v), want %v; tags=%s members=%s", cfg.label, got, pan, stable, want, c18FmtTags(l), m.label)
					}
					if li == 0 {
						ck.res.Eval(fmt.Sprintf("cfg/%s/rel/type=%s/%s", cfg.label, t, m.label))
					}
				}
			}
		}
		ck.res.Put("package_state_configs", cfg.label)
	}
}

func c18Exec(c fw.Case) *fw.Result {
	if c.Kind == "shared" {
		return c18Shared(c)
	}
	if c.Kind == "coldstart" {
		if fw.IsCold() {
			return c18Cold(c)
		}
		res := fw.NewResult()
		for i := 0; i < int(c.Int("processes")); i++ {
			r := fw.RunCold("C18", c, "C18/coldstart/crash")
			res.Evals += r.Evals
			res.Events += r.Events
			res.Sigs = append(res.Sigs, r.Sigs...)
			res.Violations = append(res.Violations, r.Violations...)
			res.Inconclusive = append(res.Inconclusive, r.Inconclusive...)
			res.RaceReports = append(res.RaceReports, r.RaceReports...)
			for k, v := range r.Counts {
				res.Counts[k] += v
			}
			res.Sample = r.Sample
		}
		res.Add("coldstart_processes", c.Int("processes"))
		return res
	}
	res := fw.NewResult()
	c18Stats()
	c18CheckListedInOrder()
	c18CheckUnrelated()
	ck := &c18Checker{res: res, kind: c.Kind}
	sample := map[string]any{}
	switch c.Kind {
	case "single":
		key := c18KeyOrder[c.Int("key")]
		c18Single(ck, key)
		sample["key"], sample["rule"], sample["values"], sample["area_classes"] = key, c18KindOf(key), len(c18ValueUniverse()), len(c18AreaClasses)
		res.Put("keys_single", key)
	case "pairs":
		key := c18KeyOrder[c.Int("key")]
		c18Pairs(ck, key)
		sample["first_key"], sample["rule"] = key, c18KindOf(key)
		res.Put("keys_pairs", key)
	case "perm":
		c18Perm(ck, int(c.Int("from")), int(c.Int("to")))
	case "unrelated":
		c18UnrelatedKind(ck)
		sample["unrelated_tags"] = len(c18Unrelated)
	case "area":
		c18AreaKind(ck)
	case "pre":
		c18Pre(ck)
	case "rel":
		c18Rel(ck)
	case "config":
		c18ConfigKind(ck)
	case "multi":
		c18Multi(ck, gen.New(c.Seed, "c18multi"), int(c.Int("n")))
		sample["sets"] = c.Int("n")
	}
	sample["examples"] = ck.samples
	res.Sample = sample
	return res
}

func init() {
	fw.Register(&fw.Prop{
		ID:    "C18",
		Level: "exploration",
		Rule: "exhaustive enumeration against /verif's own hash-map copy of the published polygon-features table (26 keys: 18 all, 5 whitelist with 22 values, 3 blacklist with 9 values; order-independent FNV checksum 0xfe2a837b2fff795c, re-measured on every run and reported as reference_table): " +
			"(single) every rule key × every value listed under ANY key ∪ nine near-misses of each listed value (±char, case, blank, ';yes', NUL) ∪ {yes, no, \"\", No, NO, 'no ', unicode, 300 chars, …} × area ∈ {absent, no, yes, \"\", other}, each under 2 orders, under 4 orders with three hostile unrelated tags interleaved, and on an open and a 3-ref way; " +
			"plus, for every whitelist / blacklist key, composite values assembled from its own entries (all ordered pairs and triples of entries joined by 13 separators incl. ';' ',' '|' blank NUL and none, the whole list joined in listed / reversed / sorted order, entries with leading / trailing separators, entries joined with unlisted or foreign values, doubled entries, every contiguous proper substring of an entry) × the area classes; (pairs) all ordered pairs of rule keys × {no, \"\", yes, a value listed under another key, every own listed value}² × the five area classes, both orders; " +
			"(perm) every key × representative value × area class with two unrelated tags under ALL permutations; (unrelated) 57 near-miss keys alone, in all ordered pairs, all together, and around every key × representative value; " +
			"(area) 24 spellings of the area value × 8 tag contexts; (pre) 31 node-ref shapes (0..6 and 2000 refs, open, closed, inner loops, negative / zero / >2^32 refs) × 12 tag sets; 40 annotation variants of the two end way-nodes (every subset of version/changeset/lat/lon differing, one-sided, NaN) × closed-by-ref / open-by-ref × 3 rings × 12 tag sets; " +
			"(rel) 33 type values + absent × 6 tag contexts × 19 member-list shapes (nil, empty, one node / way / relation, only nodes, only relations, nodes+relations, only ways, way first / middle / last, annotated, unknown member types, self reference, 500 of a kind) × type first/last/middle, with the relation's own id / version / visibility / metadata (6 variants) rotating, plus the full metadata × member shape × {multipolygon, boundary, route, empty} grid and repeated type keys where both occurrences agree; (config) the exported assignable package-level variables of the root package (UninterestingTags extended by rule keys / area / type, emptied, set false, nil, replaced; hostile CustomJSONMarshaler/Unmarshaler, CommitInfoStart, ErrScannerClosed) in 10 configurations, each followed by every key × representative value × area class alone / among the stock uninteresting tags / next to an unrelated tag, tag-less and area-only ways, the unrelated tags and relation types × member shapes, state restored afterwards; (shared) 8/12/16 goroutines × 3 calls on one shared closed way with 9–40 tags in unsorted order (5 decision classes: one passing tag, passing tags + area=no, failing tags + area=yes, nothing passes, blacklisted only) and on one shared relation, a fresh object per round, plain and race builds; (multi) PRNG sets of 0–6 rule keys + area + unrelated tags under reverse, every rotation and 4 shuffles. " +
			"A signature is the tag set itself for single (key, value, area class), the (key:class, key:class, area) triple for pairs, (key:class, area, n) for perm, the named shape × tag set for pre, (type, context, members) for rel and a (rule keys, area, unrelated, shape, answer) class for multi; re-orderings and open/3-ref repeats of an already counted set are trivial. distinct_nontrivial counts distinct signatures.",
		Assumptions: []string{
			"the CONTENT of the rule table (which keys, which rule kind, which values) is trusted to be the published tyrasd/osm-polygon-features list: /verif's copy was transcribed without network access by reading the library's embedded JSON entry by entry and comparing it with the published list as known, restructured into hash maps by rule kind, and pinned by counts and a checksum computed from a second transcription; what is tested is the library's lookup logic, init-time sorting, per-value answers, area / 'no' / closedness handling and order independence — not whether upstream has since changed the list",
			"the published entry {key: area, polygon: all} is represented by the statement's own area clause (never for area=no, always for any other non-empty value)",
			"an EMPTY area value is 'tag absent' (the statement says non-empty): asserted. A rule key present with an EMPTY value: the library treats it as absent (Tags.Find cannot tell), the literal statement / osmtogeojson would count \"\" as 'a value other than no'; the readings differ only for all/blacklist keys, those inputs are run, checked for order independence and panics, and the observed reading is counted (empty_rule_value_observed_as_*), but no answer is asserted; for whitelist keys both readings say 'does not pass' and that is asserted",
			"comparisons are exact strings as in the published rules: 'No', 'no ' and ' no' are values other than 'no'; near-miss keys (case, blanks, prefixes such as building:levels) are unrelated tags",
			"a tag list that repeats a key is not a tag set; never generated",
			"closedness is equality of the first and last node ref with more than three refs, whatever the refs are (negative, zero, > 2^32, there-and-back rings); the annotations of the two end way-nodes (version, changeset, lat, lon, NaN, one-sided) do not matter and are enumerated in every combination; only a 4-ref way whose refs are all the same node is run but not asserted",
			"the inputs of the classification are the way's node refs and tag set (relation: the type tag); exported package-level configuration of other features (osm.UninterestingTags behind Tags.AnyInteresting, the JSON codec hooks, CommitInfoStart, ErrScannerClosed) is not an input: answers under 10 modified package states must equal the reference (the config case restores the state with defer; cases of one child process run sequentially)",
			"Polygon() is a read-only predicate: concurrent callers of ONE shared way / relation must all get the single-threaded answer, the object must afterwards still hold the same tag multiset and give the same answer (asserted, plain and race builds; a race report with a library frame is a violation). After every single-threaded call the receiver is compared with its state before: a changed tag set / node or member count is a violation, a mere REORDERING of the caller's tags (same set, answer unaffected) is outside the statement's wording and is recorded only (tags_reordered_by_polygon, one INCONCLUSIVE line per case)",
			"Relation.Polygon() is compared for every listed type spelling; the member list (any shape, with or without way members), the relation's id / version / visibility / metadata, other tags (including area=no) and tag order must not matter; a tag list that repeats the type key is asserted only where every occurrence gives the same answer (which occurrence wins is counted, not asserted)",
		},
		Cases: func(tier string, seed uint64) []fw.Case {
			var cs []fw.Case
			for i, k := range c18KeyOrder {
				cs = append(cs, fw.Case{Kind: "single", P: map[string]int64{"key": int64(i)}, S: map[string]string{"key": k}})
			}
			for i, k := range c18KeyOrder {
				cs = append(cs, fw.Case{Kind: "pairs", P: map[string]int64{"key": int64(i)}, S: map[string]string{"key": k}})
			}
			for from := 0; from < len(c18KeyOrder); from += 7 {
				cs = append(cs, fw.Case{Kind: "perm", P: map[string]int64{"from": int64(from), "to": int64(from + 7)}})
			}
			for _, k := range []string{"unrelated", "area", "pre", "rel", "config"} {
				cs = append(cs, fw.Case{Kind: k})
			}
			nMulti, per := 12, int64(1500)
			if tier == "thorough" {
				nMulti, per = 48, 40000
			}
			for i := 0; i < nMulti; i++ {
				cs = append(cs, fw.Case{Kind: "multi", Seed: gen.Sub(seed, "c18multi", i), P: map[string]int64{"n": per}})
			}
			// concurrent readers of one shared way / relation (9..40 unsorted tags), plain and race
			sharedCases, sharedRounds := 6, int64(400)
			if tier == "thorough" {
				sharedCases, sharedRounds = 12, 4000
			}
			for _, v := range []string{"plain", "race"} {
				for i := 0; i < sharedCases; i++ {
					rounds := sharedRounds
					if v == "race" {
						rounds /= 4
					}
					cs = append(cs, fw.Case{Kind: "shared", Variant: v, Seed: gen.Sub(seed, "c18shared"+v, i), P: map[string]int64{"rounds": rounds}})
				}
			}
			// the first use of the rule table in a fresh process, by 64 goroutines at once
			for _, v := range []string{"plain", "race"} {
				cs = append(cs, fw.Case{Kind: "coldstart", Variant: v, P: map[string]int64{"processes": 6}})
			}
			return fw.Number(cs)
		},
		Exec:            c18Exec,
		RaceIsViolation: true,
		Exhaustive:      func(string) bool { return true },
		Post: func(tier string, agg *fw.Agg) {
			st := c18Stats()
			agg.Extra["reference_table"] = map[string]any{
				"keys": st.Keys, "all_keys": st.AllKeys, "whitelist_keys": st.OnlyKeys, "whitelist_values": st.OnlyVals,
				"blacklist_keys": st.ExceptKeys, "blacklist_values": st.ExceptVals,
				"checksum_fnv1a64_sum": fmt.Sprintf("%#016x", st.Checksum),
				"value_universe":       len(c18ValueUniverse()),
			}
		},
	})
}
