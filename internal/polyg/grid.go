package polyg

import (
	"math"
	"sort"

	"verif/internal/gen"
)

// Grid-aligned truths: every vertex sits on a coarse integer lattice (a few cells per outer),
// so that equal latitudes / longitudes between vertices of *different* rings are the rule, not
// the exception. Outers are lattice stars (diagonal edges, most side vertices are passed
// through by a horizontal line) or stacks of rows (rectilinear L / T / staircase shapes, with
// some collinear vertices kept on straight sides); they stand in a row, a column or a 2x2
// block on the same lattice; holes are small lattice polygons strictly inside. All promises are
// validated with the same exact predicates as the float-like truths.

type cell struct{ x, y int64 }

func latticeStar(r *gen.R, W, H int64) []cell {
	return latticeStarN(r, W, H, r.Range(3, 9))
}

func latticeStarN(r *gen.R, W, H int64, n int) []cell {
	seen := map[cell]bool{}
	var pts []cell
	for len(pts) < n {
		c := cell{int64(r.Intn(int(W) + 1)), int64(r.Intn(int(H) + 1))}
		if !seen[c] {
			seen[c] = true
			pts = append(pts, c)
		}
	}
	cx, cy := float64(W)/2+0.37, float64(H)/2+0.41
	sort.Slice(pts, func(i, j int) bool {
		ai := math.Atan2(float64(pts[i].y)-cy, float64(pts[i].x)-cx)
		aj := math.Atan2(float64(pts[j].y)-cy, float64(pts[j].x)-cx)
		if ai != aj {
			return ai < aj
		}
		return math.Hypot(float64(pts[i].x)-cx, float64(pts[i].y)-cy) < math.Hypot(float64(pts[j].x)-cx, float64(pts[j].y)-cy)
	})
	return pts
}

// rowStack builds a rectilinear polygon as a stack of H unit-high rows, row k spanning
// [L_k, R_k]; all rows contain the middle column, so the stack is connected and simple.
func rowStack(r *gen.R, W, H int64) []cell {
	mid := W / 2
	L := make([]int64, H)
	R := make([]int64, H)
	l, rr := int64(r.Intn(int(mid)+1)), mid+1+int64(r.Intn(int(W-mid)))
	for k := int64(0); k < H; k++ {
		if r.Chance(0.45) {
			l = int64(r.Intn(int(mid) + 1))
		}
		if r.Chance(0.45) {
			rr = mid + 1 + int64(r.Intn(int(W-mid)))
		}
		L[k], R[k] = l, rr
	}
	var raw []cell
	for k := int64(0); k < H; k++ {
		raw = append(raw, cell{R[k], k}, cell{R[k], k + 1})
	}
	for k := H - 1; k >= 0; k-- {
		raw = append(raw, cell{L[k], k + 1}, cell{L[k], k})
	}
	// drop repeated points
	var pts []cell
	for _, c := range raw {
		if len(pts) == 0 || pts[len(pts)-1] != c {
			pts = append(pts, c)
		}
	}
	for len(pts) > 1 && pts[0] == pts[len(pts)-1] {
		pts = pts[:len(pts)-1]
	}
	// drop most collinear middle vertices, keep some as straight pass-through vertices
	for changed := true; changed; {
		changed = false
		for i := 0; i < len(pts) && len(pts) > 4; i++ {
			a, b, c := pts[(i+len(pts)-1)%len(pts)], pts[i], pts[(i+1)%len(pts)]
			if (b.x-a.x)*(c.y-a.y)-(b.y-a.y)*(c.x-a.x) == 0 && r.Chance(0.6) {
				pts = append(pts[:i], pts[i+1:]...)
				changed = true
				break
			}
		}
	}
	return pts
}

func toPts(cs []cell, ox, oy, step int64) []Pt {
	out := make([]Pt, len(cs))
	for i, c := range cs {
		out[i] = Pt{ox + c.x*step, oy + c.y*step}
	}
	return out
}

// GenerateGrid draws one grid-aligned truth and the margin (grid units) used in validation.
func GenerateGrid(r *gen.R) (*Truth, float64) {
	for attempt := 0; ; attempt++ {
		if attempt > 500 {
			panic("polyg: cannot generate a valid grid truth (generator bug)")
		}
		t, margin := tryGrid(r)
		if t == nil {
			continue
		}
		t.Normalise()
		if err := t.Validate(margin); err != nil {
			continue
		}
		return t, margin
	}
}

func tryGrid(r *gen.R) (*Truth, float64) {
	step := []int64{50, 1000, 25_000, 1_000_000}[r.Intn(4)]
	margin := float64(step) / 40
	k := 1 + weighted(r, 10, 40, 30, 20)
	// boxes on a common lattice
	cols, rows := k, 1
	switch weighted(r, 60, 15, 25) {
	case 1:
		cols, rows = 1, k
	case 2:
		if k >= 3 {
			cols, rows = 2, 2
		}
	}
	W, H := int64(r.Range(6, 10)), int64(r.Range(6, 10))
	gap := int64(r.Range(1, 3))
	t := &Truth{Origin: "grid"}
	var ox, oy int64
	totalW, totalH := int64(cols)*(W+gap), int64(rows)*(H+gap)
	if r.Chance(0.2) {
		// lattice through the origin, which lies inside the layout: many vertices on an axis
		t.Origin = "grid-straddle"
		ox, oy = -int64(r.Intn(int(totalW)))*step, -int64(r.Intn(int(totalH)))*step
	} else {
		ox = int64(-170e7 + r.Float64()*(340e7-float64(totalW*step)))
		oy = int64(-80e7 + r.Float64()*(160e7-float64(totalH*step)))
	}
	slots := r.Perm(cols * rows)[:k]
	sort.Ints(slots)
	for _, s := range slots {
		bx := ox + int64(s%cols)*(W+gap)*step
		by := oy + int64(s/cols)*(H+gap)*step
		// integer jitter that keeps the boxes apart (less than the gap) and on the lattice
		if cols > 1 && rows == 1 {
			by += int64(r.Range(-2, 2)) * step
		}
		if rows > 1 && cols == 1 {
			bx += int64(r.Range(-2, 2)) * step
		}
		var outer []Pt
		for try := 0; try < 80 && outer == nil; try++ {
			var cs []cell
			if r.Bool() {
				cs = latticeStar(r, W, H)
			} else {
				cs = rowStack(r, W, H)
			}
			cand := toPts(cs, bx, by, step)
			if !Simple(cand) {
				continue
			}
			if Area2(cand) < 0 {
				reverse(cand)
			}
			if Area2(cand) < 2*(W*H/4)*step*step {
				continue // too thin to hold a hole
			}
			outer = cand
		}
		if outer == nil {
			return nil, 0
		}
		p := Poly{Outer: outer}
		inner := interiorCells(outer, bx, by, W, H, step)
		want := weighted(r, 25, 50, 25)
		for h := 0; h < want && len(inner) >= 3; h++ {
			if cand := placeLatticeHole(r, outer, inner, bx, by, step, margin, p.Holes); cand != nil {
				p.Holes = append(p.Holes, cand)
			}
		}
		t.Polys = append(t.Polys, p)
	}
	holes := 0
	for _, p := range t.Polys {
		holes += len(p.Holes)
		for k := 0; k < p.NRings(); k++ {
			for _, v := range p.Ring(k) {
				if v.X == 0 && v.Y == 0 {
					return nil, 0
				}
			}
		}
	}
	if holes == 0 {
		return nil, 0
	}
	if t.Origin == "grid" && r.Chance(0.12) {
		t.Origin = "grid-edge"
		t.TouchEdge(r)
	}
	return t, margin
}

// interiorCells lists the lattice points of the box [0,W]x[0,H] strictly inside the ring.
func interiorCells(outer []Pt, bx, by, W, H, step int64) []cell {
	var inner []cell
	for x := int64(0); x <= W; x++ {
		for y := int64(0); y <= H; y++ {
			if Locate(Pt{bx + x*step, by + y*step}, outer) == 1 {
				inner = append(inner, cell{x, y})
			}
		}
	}
	return inner
}

// placeLatticeHole tries to build a lattice triangle / quadrilateral from interior lattice
// points near a random anchor, strictly inside outer and disjoint from the holes so far.
func placeLatticeHole(r *gen.R, outer []Pt, inner []cell, bx, by, step int64, margin float64, holes [][]Pt) []Pt {
	for try := 0; try < 30; try++ {
		a := inner[r.Intn(len(inner))]
		var near []cell
		for _, c := range inner {
			if abs64(c.x-a.x) <= 2 && abs64(c.y-a.y) <= 2 && c != a {
				near = append(near, c)
			}
		}
		n := r.Range(3, 4)
		if len(near) < n-1 {
			continue
		}
		r.Shuffle(len(near), func(i, j int) { near[i], near[j] = near[j], near[i] })
		cs := append([]cell{a}, near[:n-1]...)
		var mx, my float64
		for _, c := range cs {
			mx += float64(c.x) / float64(n)
			my += float64(c.y) / float64(n)
		}
		sort.Slice(cs, func(i, j int) bool {
			return math.Atan2(float64(cs[i].y)-my, float64(cs[i].x)-mx) < math.Atan2(float64(cs[j].y)-my, float64(cs[j].x)-mx)
		})
		cand := toPts(cs, bx, by, step)
		ok := Simple(cand) && StrictlyInside(cand, outer, margin)
		for _, other := range holes {
			if !ok {
				break
			}
			ok = Disjoint(cand, other, margin)
		}
		if ok {
			return cand
		}
	}
	return nil
}

func abs64(v int64) int64 {
	if v < 0 {
		return -v
	}
	return v
}

// AlignedPassThrough counts, with exact integer comparisons, the pairs (hole vertex p, vertex v
// of another polygon's outer ring) with v.Y == p.Y, v east of p, and the outer ring passing
// through v's latitude at v (the neighbours of v, skipping a horizontal run, lie on opposite
// sides). For each such pair the index of the other polygon is reported in others.
func (t *Truth) AlignedPassThrough() (pairs int, others map[int]map[int]bool) {
	others = map[int]map[int]bool{} // own polygon -> set of other polygons
	for pi := range t.Polys {
		for _, h := range t.Polys[pi].Holes {
			for _, p := range h {
				for qi := range t.Polys {
					if qi == pi {
						continue
					}
					ring := t.Polys[qi].Outer
					n := len(ring)
					for i, v := range ring {
						if v.Y != p.Y || v.X <= p.X {
							continue
						}
						j := (i + n - 1) % n
						for ring[j].Y == v.Y && j != i {
							j = (j + n - 1) % n
						}
						k := (i + 1) % n
						for ring[k].Y == v.Y && k != i {
							k = (k + 1) % n
						}
						if sgn(ring[j].Y-v.Y)*sgn(ring[k].Y-v.Y) < 0 {
							pairs++
							if others[pi] == nil {
								others[pi] = map[int]bool{}
							}
							others[pi][qi] = true
						}
					}
				}
			}
		}
	}
	return pairs, others
}

// GridInstance cuts a grid truth with a bias towards few pieces (so that all member orders can
// be enumerated for the small ones).
func GridInstance(r *gen.R, t *Truth) *Instance {
	mode := weighted(r, 40, 40, 20)
	if mode == 2 {
		return RandomInstance(r, t)
	}
	cuts := make([][]RingCut, len(t.Polys))
	for pi := range t.Polys {
		p := &t.Polys[pi]
		for k := 0; k < p.NRings(); k++ {
			class := byte('c')
			if mode == 1 && r.Bool() {
				class = '2'
			}
			cuts[pi] = append(cuts[pi], randomCut(r, len(p.Ring(k)), class, 0.5))
		}
	}
	return finishInstance(r, t, cuts)
}

// WithOrder returns a copy of the instance with another member order.
func (in *Instance) WithOrder(order []int) *Instance {
	cp := *in
	cp.MemberOrder = append([]int(nil), order...)
	if cp.LabelAt > len(order) {
		cp.LabelAt = len(order)
	}
	return &cp
}

// OuterLast returns a copy of order with the pieces of polygon pi's outer ring moved to the end.
func (in *Instance) OuterLast(order []int, pi int) []int {
	var a, b []int
	for _, x := range order {
		if in.Pieces[x].Poly == pi && in.Pieces[x].Ring == 0 {
			b = append(b, x)
		} else {
			a = append(a, x)
		}
	}
	return append(a, b...)
}
