package polyg

import (
	"fmt"
	"math"

	"verif/internal/gen"
)

// Poly is one ground-truth polygon. Rings are stored without closing vertex; the outer ring
// is normalised counter-clockwise and every hole clockwise (by Area2).
type Poly struct {
	Outer []Pt
	Holes [][]Pt
}

// Ring returns ring k of the polygon: 0 is the outer ring, 1.. are the holes.
func (p *Poly) Ring(k int) []Pt {
	if k == 0 {
		return p.Outer
	}
	return p.Holes[k-1]
}

// NRings is 1 + number of holes.
func (p *Poly) NRings() int { return 1 + len(p.Holes) }

// Truth is a set of pairwise disjoint polygons.
type Truth struct {
	Polys []Poly
	// Origin describes how the layout was placed relative to (0,0): far | straddle | axis.
	Origin string
}

func reverse(r []Pt) {
	for i, j := 0, len(r)-1; i < j; i, j = i+1, j-1 {
		r[i], r[j] = r[j], r[i]
	}
}

// Normalise makes outers CCW and holes CW.
func (t *Truth) Normalise() {
	for i := range t.Polys {
		if Area2(t.Polys[i].Outer) < 0 {
			reverse(t.Polys[i].Outer)
		}
		for _, h := range t.Polys[i].Holes {
			if Area2(h) > 0 {
				reverse(h)
			}
		}
	}
}

// Validate re-checks every promise of the generator with the exact predicates: simple rings,
// normalised winding, holes strictly inside their outer and pairwise disjoint, outers pairwise
// disjoint (so also non-nested), all vertices distinct, none at (0,0). margin is in grid units.
func (t *Truth) Validate(margin float64) error {
	seen := map[Pt]bool{}
	for i := range t.Polys {
		p := &t.Polys[i]
		for k := 0; k < p.NRings(); k++ {
			r := p.Ring(k)
			if !Simple(r) {
				return fmt.Errorf("polygon %d ring %d is not simple", i, k)
			}
			if a := Area2(r); (k == 0) != (a > 0) {
				return fmt.Errorf("polygon %d ring %d has the wrong winding", i, k)
			}
			for _, v := range r {
				if v.X == 0 && v.Y == 0 {
					return fmt.Errorf("vertex at (0,0)")
				}
				if seen[v] {
					return fmt.Errorf("vertex %v used twice", v)
				}
				seen[v] = true
			}
		}
		for a, h := range p.Holes {
			if !StrictlyInside(h, p.Outer, margin) {
				return fmt.Errorf("polygon %d hole %d not strictly inside", i, a)
			}
			for b := a + 1; b < len(p.Holes); b++ {
				if !Disjoint(h, p.Holes[b], margin) {
					return fmt.Errorf("polygon %d holes %d and %d not disjoint", i, a, b)
				}
			}
		}
		for j := i + 1; j < len(t.Polys); j++ {
			if !Disjoint(p.Outer, t.Polys[j].Outer, margin) {
				return fmt.Errorf("outers %d and %d not disjoint", i, j)
			}
		}
	}
	return nil
}

// Translate moves every vertex.
func (t *Truth) Translate(dx, dy int64) {
	for i := range t.Polys {
		p := &t.Polys[i]
		for k := 0; k < p.NRings(); k++ {
			r := p.Ring(k)
			for j := range r {
				r[j].X += dx
				r[j].Y += dy
			}
		}
	}
}

// TouchEdge translates the truth so that its extreme vertices lie exactly on the end of the
// coordinate range: lon = 180, lon = -180, lat = 90, lat = -90, or a corner of the range.
func (t *Truth) TouchEdge(r *gen.R) {
	all := t.all()
	minX, maxX, minY, maxY := all[0].X, all[0].X, all[0].Y, all[0].Y
	for _, v := range all {
		minX, maxX = min64(minX, v.X), max64(maxX, v.X)
		minY, maxY = min64(minY, v.Y), max64(maxY, v.Y)
	}
	const lonMax, latMax = 1_800_000_000, 900_000_000
	switch r.Intn(6) {
	case 0:
		t.Translate(lonMax-maxX, 0)
	case 1:
		t.Translate(-lonMax-minX, 0)
	case 2:
		t.Translate(0, latMax-maxY)
	case 3:
		t.Translate(0, -latMax-minY)
	case 4:
		t.Translate(lonMax-maxX, latMax-maxY)
	default:
		t.Translate(-lonMax-minX, -latMax-minY)
	}
}

func (t *Truth) all() []Pt {
	var out []Pt
	for i := range t.Polys {
		p := &t.Polys[i]
		for k := 0; k < p.NRings(); k++ {
			out = append(out, p.Ring(k)...)
		}
	}
	return out
}

// star draws n vertices around (cx,cy) at increasing angles with radii in [rmin,rmax]
// (grid units). The result is counter-clockwise when it is simple; the caller validates.
func star(r *gen.R, cx, cy int64, rmin, rmax float64, n int) []Pt {
	jit := 0.35
	if n == 3 {
		jit = 0.2 // keeps every angular gap below 180 degrees
	}
	phase := r.Float64() * 2 * math.Pi
	out := make([]Pt, n)
	for i := 0; i < n; i++ {
		ang := phase + 2*math.Pi*(float64(i)+(r.Float64()*2-1)*jit)/float64(n)
		rad := rmin + r.Float64()*(rmax-rmin)
		out[i] = Pt{cx + int64(math.Round(rad*math.Cos(ang))), cy + int64(math.Round(rad*math.Sin(ang)))}
	}
	return out
}

func weighted(r *gen.R, w ...int) int {
	tot := 0
	for _, x := range w {
		tot += x
	}
	v := r.Intn(tot)
	for i, x := range w {
		if v < x {
			return i
		}
		v -= x
	}
	return len(w) - 1
}

// Margin is the minimum distance (grid units) the generator keeps between different rings of
// a layout whose largest outer radius is rmax.
func Margin(rmax float64) float64 { return math.Max(4, rmax/100) }

// Generate draws one ground truth: 1-4 outers around well separated centres (distinct cells
// of a 3x3 grid), 0-3 holes each, every promise validated with the exact predicates and
// resampled otherwise. It also returns the margin used.
func Generate(r *gen.R) (*Truth, float64) {
	for attempt := 0; ; attempt++ {
		if attempt > 200 {
			panic("polyg: cannot generate a valid truth (generator bug)")
		}
		t, margin := tryGenerate(r)
		if t == nil {
			continue
		}
		t.Normalise()
		if err := t.Validate(margin); err != nil {
			continue
		}
		return t, margin
	}
}

func tryGenerate(r *gen.R) (*Truth, float64) {
	k := 1 + weighted(r, 35, 30, 20, 15)
	// cell size: log-uniform between 0.002 and 5 degrees
	S := math.Exp(math.Log(2e4) + r.Float64()*(math.Log(5e7)-math.Log(2e4)))
	cells := r.Perm(9)[:k]
	t := &Truth{}
	var baseX, baseY float64
	switch weighted(r, 65, 15, 10, 10) {
	case 0:
		t.Origin = "far"
	case 1:
		t.Origin = "straddle"
	case 2:
		t.Origin = "axis"
	default:
		t.Origin = "edge"
	}
	if t.Origin == "straddle" {
		baseX, baseY = -r.Float64()*3*S, -r.Float64()*3*S
	} else {
		baseX = -170e7 + r.Float64()*(340e7-3*S)
		baseY = -80e7 + r.Float64()*(160e7-3*S)
	}
	maxR := 0.0
	type meta struct {
		cx, cy int64
		R      float64
	}
	metas := make([]meta, k)
	for i, c := range cells {
		cx := baseX + (float64(c%3)+0.5)*S + (r.Float64()*2-1)*0.04*S
		cy := baseY + (float64(c/3)+0.5)*S + (r.Float64()*2-1)*0.04*S
		R := (0.25 + r.Float64()*0.17) * S
		if R > maxR {
			maxR = R
		}
		metas[i] = meta{int64(math.Round(cx)), int64(math.Round(cy)), R}
	}
	margin := Margin(maxR)
	for i := 0; i < k; i++ {
		m := metas[i]
		n := r.Range(3, 10)
		if r.Chance(0.1) {
			n = r.Range(11, 30)
		}
		var outer []Pt
		for try := 0; try < 60; try++ {
			ratio := 0.35 + r.Float64()*0.55
			cand := star(r, m.cx, m.cy, ratio*m.R, m.R, n)
			if Simple(cand) && Area2(cand) > 0 {
				outer = cand
				break
			}
		}
		if outer == nil {
			return nil, 0
		}
		p := Poly{Outer: outer}
		want := weighted(r, 40, 30, 20, 10)
		for h := 0; h < want; h++ {
			rh := (0.05 + r.Float64()*0.25) * m.R
			for try := 0; try < 40; try++ {
				ang := r.Float64() * 2 * math.Pi
				d := math.Sqrt(r.Float64()) * 0.9 * m.R
				c := Pt{m.cx + int64(math.Round(d*math.Cos(ang))), m.cy + int64(math.Round(d*math.Sin(ang)))}
				if Locate(c, outer) != 1 {
					continue
				}
				if rh < 30 {
					rh = 30
				}
				ratio := 0.4 + r.Float64()*0.5
				cand := star(r, c.X, c.Y, ratio*rh, rh, r.Range(3, 7))
				ok := Simple(cand) && StrictlyInside(cand, outer, margin)
				for _, other := range p.Holes {
					if !ok {
						break
					}
					ok = Disjoint(cand, other, margin)
				}
				if ok {
					reverse(cand)
					p.Holes = append(p.Holes, cand)
					break
				}
				rh *= 0.85
			}
		}
		t.Polys = append(t.Polys, p)
	}
	if t.Origin == "axis" {
		all := t.all()
		v := all[r.Intn(len(all))]
		if r.Bool() {
			t.Translate(-v.X, 0)
		} else {
			t.Translate(0, -v.Y)
		}
	}
	if t.Origin == "edge" {
		t.TouchEdge(r)
	}
	for guard := 0; guard < 8; guard++ {
		hit := false
		for _, v := range t.all() {
			if v.X == 0 && v.Y == 0 {
				hit = true
			}
		}
		if !hit {
			break
		}
		t.Translate(1, 1)
	}
	return t, margin
}
