package polyg

import (
	"testing"

	"verif/internal/gen"
)

func sq(x, y, s int64) []Pt { return []Pt{{x, y}, {x + s, y}, {x + s, y + s}, {x, y + s}} }

func TestPredicates(t *testing.T) {
	a := sq(0, 0, 10)
	if Area2(a) != 200 || !Simple(a) {
		t.Fatal("square")
	}
	if Locate(Pt{5, 5}, a) != 1 || Locate(Pt{10, 5}, a) != 0 || Locate(Pt{0, 0}, a) != 0 || Locate(Pt{11, 5}, a) != -1 || Locate(Pt{-1, 0}, a) != -1 || Locate(Pt{5, 10}, a) != 0 {
		t.Fatal("locate")
	}
	// bow tie and spike are not simple
	if Simple([]Pt{{0, 0}, {10, 10}, {10, 0}, {0, 10}}) {
		t.Fatal("bow tie")
	}
	if Simple([]Pt{{0, 0}, {10, 0}, {5, 0}, {5, 5}}) {
		t.Fatal("spike")
	}
	if !Simple([]Pt{{0, 0}, {5, 0}, {10, 0}, {5, 5}}) {
		t.Fatal("collinear straight vertex is fine")
	}
	if !SegTouch(Pt{0, 0}, Pt{10, 0}, Pt{10, 0}, Pt{20, 5}) || !SegTouch(Pt{0, 0}, Pt{10, 0}, Pt{5, 0}, Pt{15, 0}) || SegTouch(Pt{0, 0}, Pt{10, 0}, Pt{11, 0}, Pt{15, 0}) || !SegTouch(Pt{0, 0}, Pt{10, 10}, Pt{0, 10}, Pt{10, 0}) {
		t.Fatal("segtouch")
	}
	// touching squares are not apart / disjoint; nested is not disjoint; inner square strictly inside
	if Apart(a, sq(10, 0, 10), 0) || Disjoint(a, sq(10, 0, 10), 0) || Disjoint(a, sq(2, 2, 3), 0) || !Disjoint(a, sq(12, 0, 3), 1) || Disjoint(a, sq(12, 0, 3), 2) {
		t.Fatal("apart/disjoint")
	}
	if !StrictlyInside(sq(2, 2, 3), a, 1) || StrictlyInside(sq(2, 2, 3), a, 2) || StrictlyInside(sq(0, 2, 3), a, 0) || StrictlyInside(sq(20, 2, 3), a, 0) {
		t.Fatal("strictly inside")
	}
	// a concave outer: all vertices of the candidate inside but an edge leaves the polygon
	u := []Pt{{0, 0}, {30, 0}, {30, 30}, {20, 30}, {20, 10}, {10, 10}, {10, 30}, {0, 30}}
	if !Simple(u) || StrictlyInside([]Pt{{5, 20}, {25, 20}, {25, 25}, {5, 25}}, u, 0) {
		t.Fatal("edge crossing a concave outer must be rejected")
	}
}

func TestGenerateAndCut(t *testing.T) {
	for i := 0; i < 3000; i++ {
		r := gen.New(uint64(i), "t")
		tr, m := Generate(r)
		if err := tr.Validate(m); err != nil {
			t.Fatal(err)
		}
		in := RandomInstance(r, tr)
		// every ring edge is covered by exactly one piece, every piece has >= 1 edge,
		// closed pieces repeat their first vertex, Dir agrees with the stored sequence
		type e struct{ a, b int }
		cover := map[e]int{}
		for _, pc := range in.Pieces {
			if len(pc.V) < 2 || pc.Closed != (pc.V[0] == pc.V[len(pc.V)-1]) {
				t.Fatalf("piece %+v", pc)
			}
			n := len(tr.Polys[pc.Poly].Ring(pc.Ring))
			for j := 0; j+1 < len(pc.V); j++ {
				a, b := in.Verts[pc.V[j]], in.Verts[pc.V[j+1]]
				if a.Poly != pc.Poly || a.Ring != pc.Ring || b.Poly != pc.Poly || b.Ring != pc.Ring {
					t.Fatal("piece leaves its ring")
				}
				fwd := b.Pos == (a.Pos+1)%n
				bwd := a.Pos == (b.Pos+1)%n
				if n == 2 || fwd == bwd {
					t.Fatal("not an edge")
				}
				normalCCW := pc.Ring == 0
				if (fwd == normalCCW) != (pc.Dir == 1) {
					t.Fatalf("Dir wrong: %+v", pc)
				}
				if fwd {
					cover[e{pc.V[j], pc.V[j+1]}]++
				} else {
					cover[e{pc.V[j+1], pc.V[j]}]++
				}
			}
		}
		if len(cover) != len(in.Verts) {
			t.Fatalf("edges covered %d, want %d", len(cover), len(in.Verts))
		}
		for _, c := range cover {
			if c != 1 {
				t.Fatal("edge covered twice")
			}
		}
	}
}

func TestGenerateGrid(t *testing.T) {
	aligned := 0
	for i := 0; i < 1500; i++ {
		r := gen.New(uint64(i), "g")
		tr, m := GenerateGrid(r)
		if err := tr.Validate(m); err != nil {
			t.Fatal(err)
		}
		if n, _ := tr.AlignedPassThrough(); n > 0 {
			aligned++
		}
		in := GridInstance(r, tr)
		if len(in.Pieces) == 0 || len(in.OuterLast(in.MemberOrder, 0)) != len(in.Pieces) {
			t.Fatal("instance")
		}
	}
	if aligned < 500 {
		t.Fatalf("only %d of 1500 grid truths have an aligned pass-through vertex", aligned)
	}
	// the hand-made pass-through cases: diagonal vertex, rectilinear step, and a peak (not pass-through)
	mk := func(outer []Pt) *Truth {
		return &Truth{Polys: []Poly{
			{Outer: sq(0, 0, 60), Holes: [][]Pt{{{20, 20}, {30, 40}, {40, 30}}}},
			{Outer: outer},
		}}
	}
	if n, o := mk([]Pt{{100, 0}, {130, 0}, {140, 30}, {130, 40}, {100, 40}, {90, 20}}).AlignedPassThrough(); n != 2 || !o[0][1] {
		t.Fatalf("hexagon: %d", n)
	}
	if n, _ := mk([]Pt{{100, 0}, {150, 0}, {150, 20}, {160, 20}, {160, 60}, {100, 60}}).AlignedPassThrough(); n != 2 {
		t.Fatalf("staircase: %d (both ends of the horizontal step)", n)
	}
	if n, _ := mk([]Pt{{100, 30}, {130, 20}, {160, 30}}).AlignedPassThrough(); n != 0 {
		t.Fatalf("extremum vertex is not pass-through: %d", n)
	}
}

func TestGenerateShared(t *testing.T) {
	sharedTotal := 0
	for i := 0; i < 1500; i++ {
		s := GenerateShared(gen.New(uint64(i), "s"))
		type use struct {
			nodes string
			dirs  []int
		}
		ways := map[int64]*use{}
		for _, in := range s.Rels {
			if err := in.T.Validate(1); err != nil {
				t.Fatal(err)
			}
			o := in.OSMPre(true, nil)
			for k, pi := range in.WayOrder {
				w := o.Ways[k]
				seq := ""
				for _, n := range w.Nodes {
					seq += " " + n.ID.FeatureID().String()
				}
				u := ways[int64(w.ID)]
				if u == nil {
					u = &use{nodes: seq}
					ways[int64(w.ID)] = u
				}
				if u.nodes != seq {
					t.Fatalf("way %d stored differently in two relations", w.ID)
				}
				u.dirs = append(u.dirs, int(in.Pieces[pi].Dir))
			}
		}
		n := 0
		for id, u := range ways {
			switch len(u.dirs) {
			case 1:
			case 2:
				n++
				if u.dirs[0] != -u.dirs[1] {
					t.Fatalf("shared way %d must run opposite ways around its two relations", id)
				}
			default:
				t.Fatalf("way %d in %d relations", id, len(u.dirs))
			}
		}
		if n != s.SharedWays || n == 0 {
			t.Fatalf("shared ways %d, counted %d", s.SharedWays, n)
		}
		sharedTotal += n
	}
	if sharedTotal < 1500 {
		t.Fatal("too few shared ways")
	}
}

func TestGenerateConcaveAndEdge(t *testing.T) {
	out, in := 0, 0
	for i := 0; i < 1000; i++ {
		tr, m := GenerateConcave(gen.New(uint64(i), "c"))
		if err := tr.Validate(m); err != nil {
			t.Fatal(err)
		}
		o, io := tr.BBoxCentreStats()
		if o > 0 {
			out++
		}
		if io > 0 {
			in++
		}
	}
	if out < 250 || in < 40 {
		t.Fatalf("concave truths: bbox centre outside own outer %d, inside another outer %d of 1000", out, in)
	}
	// the U of the textbook case: hole through both arms, rectangle in the notch
	u := &Truth{Polys: []Poly{
		{Outer: []Pt{{10, 10}, {110, 10}, {110, 110}, {80, 110}, {80, 40}, {40, 40}, {40, 110}, {10, 110}},
			Holes: [][]Pt{{{20, 20}, {20, 100}, {30, 100}, {30, 30}, {90, 30}, {90, 100}, {100, 100}, {100, 20}}}},
		{Outer: []Pt{{50, 50}, {70, 50}, {70, 90}, {50, 90}}},
	}}
	u.Normalise()
	if err := u.Validate(1); err != nil {
		t.Fatal(err)
	}
	if o, io := u.BBoxCentreStats(); o != 1 || io != 1 {
		t.Fatalf("U: %d %d", o, io)
	}
	// rings spanning the whole coordinate range are handled exactly
	w := []Pt{{-1_800_000_000, -900_000_000}, {1_800_000_000, -900_000_000}, {1_800_000_000, 900_000_000}, {-1_800_000_000, 900_000_000}}
	if !Simple(w) || Area2(w) <= 0 || Locate(Pt{1, 1}, w) != 1 || Locate(Pt{1_800_000_000, 5}, w) != 0 {
		t.Fatal("world ring")
	}
	edge := 0
	for i := 0; i < 2000; i++ {
		tr, _ := Generate(gen.New(uint64(i), "e"))
		if tr.Origin != "edge" {
			continue
		}
		edge++
		hit := false
		for _, v := range tr.all() {
			if v.X > 1_800_000_000 || v.X < -1_800_000_000 || v.Y > 900_000_000 || v.Y < -900_000_000 {
				t.Fatal("out of range")
			}
			if v.X == 1_800_000_000 || v.X == -1_800_000_000 || v.Y == 900_000_000 || v.Y == -900_000_000 {
				hit = true
			}
		}
		if !hit {
			t.Fatal("edge truth without a vertex on the edge")
		}
	}
	if edge < 100 {
		t.Fatal("too few edge truths")
	}
}

func TestGenerateTinyAndForms(t *testing.T) {
	small := 0
	for i := 0; i < 1500; i++ {
		r := gen.New(uint64(i), "t")
		tr, m := GenerateTiny(r)
		if err := tr.Validate(m); err != nil {
			t.Fatal(err)
		}
		for _, p := range tr.Polys {
			minX, maxX := p.Outer[0].X, p.Outer[0].X
			for _, v := range p.Outer {
				minX, maxX = min64(minX, v.X), max64(maxX, v.X)
			}
			if maxX-minX > 36 {
				t.Fatalf("outer %d steps wide", maxX-minX)
			}
			if maxX-minX <= 4 {
				small++
			}
		}
		in := GridInstance(r, tr)
		// coordinate forms: same way-node sequences, refs dropped / ways embedded as documented
		w, z, mz := in.OSMForm("W", nil), in.OSMForm("Z", nil), in.OSMForm("MZ", nil)
		if len(z.Ways) != len(w.Ways) || len(mz.Ways) != 0 || len(z.Nodes) != len(w.Nodes) {
			t.Fatal("forms")
		}
		for k := range w.Ways {
			for j, wn := range w.Ways[k].Nodes {
				zn := z.Ways[k].Nodes[j]
				if zn.ID != 0 || zn.Lat != wn.Lat || zn.Lon != wn.Lon || wn.ID == 0 {
					t.Fatal("Z form")
				}
			}
		}
		for _, m := range mz.Relations[0].Members {
			if m.Type == "way" && (len(m.Nodes) < 2 || m.Nodes[0].ID != 0 || (m.Nodes[0].Lat == 0 && m.Nodes[0].Lon == 0)) {
				t.Fatal("MZ form")
			}
		}
	}
	if small < 500 {
		t.Fatalf("only %d outers of at most 4 steps", small)
	}
}
