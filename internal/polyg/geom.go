// Package polyg is the independent producer behind the C16 check: it generates ground-truth
// polygon sets (outer rings with holes), validates them with its own exact integer geometry,
// cuts the rings into OSM ways, and renders the resulting multipolygon relation in the input
// shapes the library accepts. Nothing in here calls the ring-assembly code of paulmach/osm.
package polyg

import (
	"math"
	"math/big"
)

// Pt is a vertex on the 1e-7 degree grid (X = longitude, Y = latitude, both in grid units).
// All generator-side geometry is done on these integers and is therefore exact.
type Pt struct{ X, Y int64 }

// Lon is the longitude handed to the library.
func (p Pt) Lon() float64 { return float64(p.X) / 1e7 }

// Lat is the latitude handed to the library.
func (p Pt) Lat() float64 { return float64(p.Y) / 1e7 }

// Cross is the z component of (a-o) x (b-o): >0 when o,a,b turn counter-clockwise. Exact: when
// the differences are too large for int64 products (rings spanning the whole coordinate range)
// it is computed with big integers and saturated, which keeps sign and zero-ness.
func Cross(o, a, b Pt) int64 {
	dx1, dy1, dx2, dy2 := a.X-o.X, a.Y-o.Y, b.X-o.X, b.Y-o.Y
	if small(dx1) && small(dy1) && small(dx2) && small(dy2) {
		return dx1*dy2 - dy1*dx2
	}
	return saturate(crossBig(o, a, b))
}

func small(v int64) bool { return v > -(1<<30) && v < 1<<30 }

func crossBig(o, a, b Pt) *big.Int {
	x := new(big.Int).Mul(big.NewInt(a.X-o.X), big.NewInt(b.Y-o.Y))
	y := new(big.Int).Mul(big.NewInt(a.Y-o.Y), big.NewInt(b.X-o.X))
	return x.Sub(x, y)
}

func saturate(v *big.Int) int64 {
	if v.IsInt64() {
		return v.Int64()
	}
	if v.Sign() > 0 {
		return math.MaxInt64
	}
	return math.MinInt64
}

func dot(o, a, b Pt) int64 {
	dx1, dy1, dx2, dy2 := a.X-o.X, a.Y-o.Y, b.X-o.X, b.Y-o.Y
	if small(dx1) && small(dy1) && small(dx2) && small(dy2) {
		return dx1*dx2 + dy1*dy2
	}
	x := new(big.Int).Mul(big.NewInt(dx1), big.NewInt(dx2))
	y := new(big.Int).Mul(big.NewInt(dy1), big.NewInt(dy2))
	return saturate(x.Add(x, y))
}

func sgn(v int64) int {
	switch {
	case v > 0:
		return 1
	case v < 0:
		return -1
	}
	return 0
}

// Area2 is twice the signed area of the ring given without closing vertex (>0: CCW).
// Differences to the first vertex are used so that the products stay far below 2^63.
func Area2(r []Pt) int64 {
	big2 := false
	for _, p := range r {
		if d := p.X - r[0].X; d <= -(1<<27) || d >= 1<<27 {
			big2 = true
		}
		if d := p.Y - r[0].Y; d <= -(1<<27) || d >= 1<<27 {
			big2 = true
		}
	}
	if big2 {
		sum := new(big.Int)
		for i := 1; i+1 < len(r); i++ {
			sum.Add(sum, crossBig(r[0], r[i], r[i+1]))
		}
		return saturate(sum)
	}
	var a int64
	for i := 1; i+1 < len(r); i++ {
		a += Cross(r[0], r[i], r[i+1])
	}
	return a
}

// OnSeg reports whether p lies on the closed segment ab.
func OnSeg(p, a, b Pt) bool {
	if Cross(a, b, p) != 0 {
		return false
	}
	return min64(a.X, b.X) <= p.X && p.X <= max64(a.X, b.X) &&
		min64(a.Y, b.Y) <= p.Y && p.Y <= max64(a.Y, b.Y)
}

func min64(a, b int64) int64 {
	if a < b {
		return a
	}
	return b
}

func max64(a, b int64) int64 {
	if a > b {
		return a
	}
	return b
}

// SegTouch reports whether the closed segments ab and cd have any point in common.
func SegTouch(a, b, c, d Pt) bool {
	d1, d2 := sgn(Cross(c, d, a)), sgn(Cross(c, d, b))
	d3, d4 := sgn(Cross(a, b, c)), sgn(Cross(a, b, d))
	if d1*d2 < 0 && d3*d4 < 0 {
		return true
	}
	return OnSeg(a, c, d) || OnSeg(b, c, d) || OnSeg(c, a, b) || OnSeg(d, a, b)
}

// Locate classifies p against the ring (no closing vertex): +1 strictly inside, 0 on the
// boundary, -1 outside. Winding-number test with exact integer predicates.
func Locate(p Pt, ring []Pt) int {
	n := len(ring)
	wn := 0
	for i := 0; i < n; i++ {
		a, b := ring[i], ring[(i+1)%n]
		if OnSeg(p, a, b) {
			return 0
		}
		if a.Y <= p.Y {
			if b.Y > p.Y && Cross(a, b, p) > 0 {
				wn++
			}
		} else if b.Y <= p.Y && Cross(a, b, p) < 0 {
			wn--
		}
	}
	if wn != 0 {
		return 1
	}
	return -1
}

// Simple reports whether the ring (no closing vertex) is a simple polygon: at least three
// distinct vertices, non-zero area, no two non-adjacent edges touching, adjacent edges not
// folding back onto each other.
func Simple(r []Pt) bool {
	n := len(r)
	if n < 3 || Area2(r) == 0 {
		return false
	}
	seen := make(map[Pt]bool, n)
	for _, p := range r {
		if seen[p] {
			return false
		}
		seen[p] = true
	}
	for i := 0; i < n; i++ {
		a, b := r[i], r[(i+1)%n]
		// spike at b?
		c := r[(i+2)%n]
		if Cross(b, a, c) == 0 && dot(b, a, c) > 0 {
			return false
		}
		for j := i + 2; j < n; j++ {
			if i == 0 && j == n-1 {
				continue // adjacent through the wrap-around
			}
			if SegTouch(a, b, r[j], r[(j+1)%n]) {
				return false
			}
		}
	}
	return true
}

func ptSegDist(p, a, b Pt) float64 {
	px, py := float64(p.X-a.X), float64(p.Y-a.Y)
	bx, by := float64(b.X-a.X), float64(b.Y-a.Y)
	l2 := bx*bx + by*by
	t := 0.0
	if l2 > 0 {
		t = (px*bx + py*by) / l2
		t = math.Max(0, math.Min(1, t))
	}
	return math.Hypot(px-t*bx, py-t*by)
}

func segDist(a, b, c, d Pt) float64 {
	if SegTouch(a, b, c, d) {
		return 0
	}
	return math.Min(math.Min(ptSegDist(a, c, d), ptSegDist(b, c, d)), math.Min(ptSegDist(c, a, b), ptSegDist(d, a, b)))
}

// Apart reports whether the boundaries of two rings do not touch and stay further than margin
// grid units from each other.
func Apart(a, b []Pt, margin float64) bool {
	for i := range a {
		for j := range b {
			if segDist(a[i], a[(i+1)%len(a)], b[j], b[(j+1)%len(b)]) <= margin {
				return false
			}
		}
	}
	return true
}

// StrictlyInside reports whether ring in lies strictly inside ring out: every vertex strictly
// inside and the boundaries further apart than margin (so no edge can leave and re-enter).
func StrictlyInside(in, out []Pt, margin float64) bool {
	for _, p := range in {
		if Locate(p, out) != 1 {
			return false
		}
	}
	return Apart(in, out, margin)
}

// Disjoint reports whether two rings bound disjoint regions (neither nested nor touching).
func Disjoint(a, b []Pt, margin float64) bool {
	if !Apart(a, b, margin) {
		return false
	}
	// boundaries do not meet, so the regions are disjoint iff no vertex of one is in the other
	return Locate(a[0], b) == -1 && Locate(b[0], a) == -1
}
