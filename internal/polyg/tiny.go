package polyg

import (
	"verif/internal/gen"
)

// Tiny truths: lattice rings only 1..12 coordinate steps (1e-7 degrees) across, placed far from
// lon/lat 0 — at +-179.9, +-89.9, at mid-latitude cities — where the float64 spacing of the
// coordinates is coarse compared with the ring. They are valid simple rings at OSM resolution;
// orientation and containment are decided exactly on the integers by the generator.

var tinyPlaces = [][2]float64{ // lon, lat
	{179.9, -16.5}, {-179.9, 51.9}, {179.9, 89.9}, {-179.9, -89.9}, {12.3, 89.9}, {-70.1, -89.9},
	{151.2093, -33.8688}, {139.6917, 35.6895}, {18.0686, 59.3293}, {-149.9003, 61.2181},
	{-122.4194, 37.7749}, {-58.3816, -34.6037}, {103.8198, 1.3521}, {-0.1276, 51.5072},
}

// GenerateTiny draws one tiny truth and the validation margin.
func GenerateTiny(r *gen.R) (*Truth, float64) {
	for attempt := 0; ; attempt++ {
		if attempt > 2000 {
			panic("polyg: cannot generate a tiny truth (generator bug)")
		}
		t, margin := tryTiny(r)
		if t == nil {
			continue
		}
		t.Normalise()
		if err := t.Validate(margin); err != nil {
			continue
		}
		return t, margin
	}
}

func tryTiny(r *gen.R) (*Truth, float64) {
	step := int64(1)
	if r.Chance(0.2) {
		step = int64(r.Range(2, 3))
	}
	margin := float64(step) / 40
	k := 1 + weighted(r, 45, 35, 20)
	place := tinyPlaces[r.Intn(len(tinyPlaces))]
	ox := int64(place[0]*1e7) + int64(r.Range(-5000, 5000))
	oy := int64(place[1]*1e7) + int64(r.Range(-5000, 5000))
	t := &Truth{Origin: "tiny"}
	x := int64(0)
	for i := 0; i < k; i++ {
		W, H := int64(r.Range(1, 12)), int64(r.Range(1, 12))
		if r.Chance(0.5) { // the very small ones
			W, H = int64(r.Range(1, 4)), int64(r.Range(1, 4))
		}
		bx, by := ox+x*step, oy+int64(r.Range(-2, 2))*step
		x += W + int64(r.Range(1, 3))
		var outer []Pt
		for try := 0; try < 60 && outer == nil; try++ {
			var cs []cell
			if W >= 2 && r.Chance(0.4) {
				cs = rowStack(r, W, H)
			} else {
				cs = tinyStar(r, W, H)
			}
			if cs == nil {
				continue
			}
			cand := toPts(cs, bx, by, step)
			if !Simple(cand) {
				continue
			}
			if Area2(cand) < 0 {
				reverse(cand)
			}
			outer = cand
		}
		if outer == nil {
			return nil, 0
		}
		p := Poly{Outer: outer}
		if inner := interiorCells(outer, bx, by, W, H, step); len(inner) >= 3 && r.Chance(0.7) {
			if h := placeLatticeHole(r, outer, inner, bx, by, step, margin, nil); h != nil {
				p.Holes = append(p.Holes, h)
			}
		}
		t.Polys = append(t.Polys, p)
	}
	if r.Chance(0.1) {
		t.Origin = "tiny-edge"
		t.TouchEdge(r)
	}
	for _, v := range t.all() {
		if (v.X == 0 && v.Y == 0) || v.X > 1_800_000_000 || v.X < -1_800_000_000 || v.Y > 900_000_000 || v.Y < -900_000_000 {
			return nil, 0
		}
	}
	return t, margin
}

// tinyStar picks 3..7 lattice points of the box and orders them by angle around an off-lattice
// centre; the caller checks simplicity.
func tinyStar(r *gen.R, W, H int64) []cell {
	total := int((W + 1) * (H + 1))
	n := r.Range(3, 7)
	if n > total {
		n = total
	}
	if n < 3 {
		return nil
	}
	return latticeStarN(r, W, H, n)
}
