package polyg

import (
	"sort"
	"strings"
	"time"

	"github.com/paulmach/orb"
	"github.com/paulmach/osm"

	"verif/internal/gen"
)

// RingCut says how one ring is turned into ways: it is cut at the vertex positions Cuts
// (sorted, distinct, at least one). One cut position yields a single closed way starting and
// ending at that vertex; k>=2 positions yield k open ways, piece i running from Cuts[i] to
// Cuts[i+1] (cyclically) in the ring's normalised direction. Rev[i] stores piece i backwards.
type RingCut struct {
	Cuts []int
	Rev  []bool
}

// Vert is one distinct vertex of the truth with the node id it is given.
type Vert struct {
	P               Pt
	ID              osm.NodeID
	Poly, Ring, Pos int
}

// Piece is one member way.
type Piece struct {
	ID         osm.WayID
	Poly, Ring int
	Role       string // outer | inner
	V          []int  // indices into Instance.Verts in stored order (a closed way repeats its first vertex)
	Closed     bool
	Reversed   bool
	// Dir is the direction in which the way, as stored, runs around its ring in the truth.
	Dir orb.Orientation
	// Ver is the way's version minus one and Epoch the relation version (0-based) shortly before
	// which this way version was written; both 0 unless the instance is part of a history.
	Ver, Epoch int
}

// Instance is a ground truth together with one way of presenting it as a relation.
type Instance struct {
	T      *Truth
	Verts  []Vert
	Pieces []Piece
	// orders: permutations of piece / vertex indices
	WayOrder, MemberOrder, NodeOrder []int
	RelID                            osm.RelationID
	Tags                             osm.Tags
	// optional node member (label / admin_centre) inserted before member position LabelAt
	Label     bool
	LabelAt   int
	LabelID   osm.NodeID
	LabelP    Pt
	LabelRole string
	// NodeScheme names how the ring nodes are numbered (see applyNodeScheme)
	NodeScheme string
	// NodeV0: located way nodes carry version 0 (location known, version not), else version 1
	NodeV0 bool
}

// Assemble cuts the truth as planned (cuts[poly][ring]) and numbers nodes and ways with the
// given id lists (at least as many ids as vertices / pieces). Pieces are listed polygon by
// polygon, ring by ring, piece by piece; all orders start as the identity.
func Assemble(t *Truth, cuts [][]RingCut, nodeIDs []osm.NodeID, wayIDs []osm.WayID) *Instance {
	in := &Instance{T: t}
	for pi := range t.Polys {
		p := &t.Polys[pi]
		for k := 0; k < p.NRings(); k++ {
			ring := p.Ring(k)
			n := len(ring)
			base := len(in.Verts)
			for pos, v := range ring {
				in.Verts = append(in.Verts, Vert{P: v, ID: nodeIDs[len(in.Verts)], Poly: pi, Ring: k, Pos: pos})
			}
			rc := cuts[pi][k]
			role, normal := "outer", orb.CCW
			if k > 0 {
				role, normal = "inner", orb.CW
			}
			kk := len(rc.Cuts)
			for i := 0; i < kk; i++ {
				from := rc.Cuts[i]
				steps := n
				if kk > 1 {
					steps = ((rc.Cuts[(i+1)%kk]-from)%n + n) % n
				}
				pc := Piece{ID: wayIDs[len(in.Pieces)], Poly: pi, Ring: k, Role: role, Closed: kk == 1, Dir: normal}
				for s := 0; s <= steps; s++ {
					pc.V = append(pc.V, base+(from+s)%n)
				}
				if rc.Rev[i] {
					pc.Reversed = true
					pc.Dir = -normal
					for a, b := 0, len(pc.V)-1; a < b; a, b = a+1, b-1 {
						pc.V[a], pc.V[b] = pc.V[b], pc.V[a]
					}
				}
				in.Pieces = append(in.Pieces, pc)
			}
		}
	}
	in.WayOrder = identity(len(in.Pieces))
	in.MemberOrder = identity(len(in.Pieces))
	in.NodeOrder = identity(len(in.Verts))
	in.RelID = 1
	in.Tags = osm.Tags{{Key: "type", Value: "multipolygon"}}
	return in
}

func identity(n int) []int {
	p := make([]int, n)
	for i := range p {
		p[i] = i
	}
	return p
}

// CutClass names the cut count of a ring with n vertices: c (one closed way), 2, m (3..n-1
// pieces), a (every edge its own way).
func CutClass(n, k int) byte {
	switch {
	case k == 1:
		return 'c'
	case k == n:
		return 'a'
	case k == 2:
		return '2'
	}
	return 'm'
}

func randomCut(r *gen.R, n int, class byte, pRev float64) RingCut {
	k := 1
	switch class {
	case '2':
		k = 2
	case 'm':
		if n >= 5 {
			k = r.Range(3, n-1)
		} else {
			k = r.Range(2, n) // no middle class for triangles and quads
		}
	case 'a':
		k = n
	}
	pos := r.Perm(n)[:k]
	sort.Ints(pos)
	rc := RingCut{Cuts: pos, Rev: make([]bool, k)}
	for i := range rc.Rev {
		rc.Rev[i] = r.Chance(pRev)
	}
	return rc
}

func distinctIDs(r *gen.R, n int) []int64 {
	seen := map[int64]bool{}
	out := make([]int64, 0, n)
	hi := int64(1) << uint(r.Range(8, 40))
	if hi < int64(4*n) {
		hi = int64(4 * n)
	}
	for len(out) < n {
		v := r.Int64Range(1, hi)
		if !seen[v] {
			seen[v] = true
			out = append(out, v)
		}
	}
	return out
}

// RandomInstance cuts every ring at 1..n positions, reverses pieces at random, shuffles
// members, ways and nodes, and picks the relation type and tags.
func RandomInstance(r *gen.R, t *Truth) *Instance {
	mode := weighted(r, 10, 10, 80) // all closed | every edge | per ring at random
	pRev := []float64{0, 1, 0.5}[weighted(r, 10, 10, 80)]
	cuts := make([][]RingCut, len(t.Polys))
	for pi := range t.Polys {
		p := &t.Polys[pi]
		for k := 0; k < p.NRings(); k++ {
			n := len(p.Ring(k))
			class := byte('c')
			switch mode {
			case 1:
				class = 'a'
			case 2:
				class = "c2ma"[r.Intn(4)]
			}
			cuts[pi] = append(cuts[pi], randomCut(r, n, class, pRev))
		}
	}
	return finishInstance(r, t, cuts)
}

// finishInstance numbers nodes and ways, shuffles members, ways and nodes and picks the
// relation type, tags and the optional node member for the given cut plan.
func finishInstance(r *gen.R, t *Truth, cuts [][]RingCut) *Instance {
	nv, np := 0, 0
	for pi := range t.Polys {
		for k := 0; k < t.Polys[pi].NRings(); k++ {
			nv += len(t.Polys[pi].Ring(k))
			np += len(cuts[pi][k].Cuts)
		}
	}
	nid := distinctIDs(r, nv+1)
	wid := distinctIDs(r, np)
	nodeIDs := make([]osm.NodeID, nv)
	for i := range nodeIDs {
		nodeIDs[i] = osm.NodeID(nid[i])
	}
	wayIDs := make([]osm.WayID, np)
	for i := range wayIDs {
		wayIDs[i] = osm.WayID(wid[i])
	}
	in := Assemble(t, cuts, nodeIDs, wayIDs)
	in.RelID = osm.RelationID(r.Int64Range(1, 1<<30))
	in.WayOrder = r.Perm(np)
	in.NodeOrder = r.Perm(nv)
	switch weighted(r, 76, 10, 7, 7) {
	case 0:
		in.MemberOrder = r.Perm(np)
	case 1: // ring order: the easy case
	case 2: // all inner members before the outer ones
		var a, b []int
		for i, pc := range in.Pieces {
			if pc.Role == "inner" {
				a = append(a, i)
			} else {
				b = append(b, i)
			}
		}
		r.Shuffle(len(a), func(i, j int) { a[i], a[j] = a[j], a[i] })
		r.Shuffle(len(b), func(i, j int) { b[i], b[j] = b[j], b[i] })
		in.MemberOrder = append(a, b...)
	default: // reverse ring order
		for i, j := 0, np-1; i < j; i, j = i+1, j-1 {
			in.MemberOrder[i], in.MemberOrder[j] = in.MemberOrder[j], in.MemberOrder[i]
		}
	}
	typ := r.PickS("multipolygon", "boundary")
	in.Tags = osm.Tags{{Key: "type", Value: typ}}
	switch r.Intn(4) {
	case 0:
		in.Tags = append(in.Tags, osm.Tag{Key: "natural", Value: "water"})
	case 1:
		in.Tags = append(in.Tags, osm.Tag{Key: "boundary", Value: "administrative"}, osm.Tag{Key: "name", Value: r.Word()})
	}
	in.NodeV0 = r.Chance(0.25)
	if r.Chance(0.2) {
		in.Label = true
		in.LabelAt = r.Intn(np + 1)
		in.LabelID = osm.NodeID(nid[nv])
		in.LabelRole = r.PickS("label", "admin_centre")
		// the first vertex moved by one grid unit: located, distinct from every ring vertex
		// is not required (it is no ring node); only (0,0) must be avoided
		in.LabelP = Pt{t.Polys[0].Outer[0].X + 1, t.Polys[0].Outer[0].Y}
		if in.LabelP.X == 0 && in.LabelP.Y == 0 {
			in.LabelP.X = 2
		}
	}
	in.applyNodeScheme(r, []string{"pos", "neg", "mix", "small", "big"}[weighted(r, 55, 15, 15, 8, 7)])
	if in.Label && r.Chance(0.3) {
		// the node member shares its number with one of the way members (different type)
		cand := osm.NodeID(in.Pieces[r.Intn(np)].ID)
		clash := false
		for _, v := range in.Verts {
			if v.ID == cand {
				clash = true
			}
		}
		if !clash {
			in.LabelID = cand
		}
	}
	return in
}

// applyNodeScheme renumbers the ring nodes (way and relation ids stay as they are): pos
// (positive, as drawn), neg (all negative, as in JOSM / ogr2osm files), mix (some negative),
// small (ids around 0: -k..k without 0), big (beyond 2^40). The node member keeps a positive id
// different from every ring node.
func (in *Instance) applyNodeScheme(r *gen.R, scheme string) {
	in.NodeScheme = scheme
	n := len(in.Verts)
	switch scheme {
	case "neg":
		for i := range in.Verts {
			in.Verts[i].ID = -in.Verts[i].ID
		}
	case "mix":
		for i := range in.Verts {
			if r.Bool() {
				in.Verts[i].ID = -in.Verts[i].ID
			}
		}
	case "small":
		var ids []osm.NodeID
		for k := 1; len(ids) < n; k++ {
			ids = append(ids, osm.NodeID(k), osm.NodeID(-k))
		}
		ids = ids[:n]
		r.Shuffle(n, func(i, j int) { ids[i], ids[j] = ids[j], ids[i] })
		for i := range in.Verts {
			in.Verts[i].ID = ids[i]
		}
		in.LabelID = osm.NodeID(n + 10)
	case "big":
		off := osm.NodeID(1)<<40 + osm.NodeID(r.Int64Range(0, 1<<45))
		for i := range in.Verts {
			in.Verts[i].ID += off
		}
	}
}

var (
	tChild  = time.Date(2015, 3, 1, 12, 0, 0, 0, time.UTC)
	tParent = time.Date(2016, 3, 1, 12, 0, 0, 0, time.UTC)
)

func (in *Instance) way(pc *Piece, located bool) *osm.Way {
	w := &osm.Way{ID: pc.ID, Version: pc.Ver + 1, Visible: true, ChangesetID: osm.ChangesetID(7 + 100*pc.Epoch), Timestamp: epochTime(pc.Epoch)}
	for _, vi := range pc.V {
		v := in.Verts[vi]
		wn := osm.WayNode{ID: v.ID}
		if located {
			wn.Lat, wn.Lon = v.P.Lat(), v.P.Lon()
			if !in.NodeV0 {
				wn.Version, wn.ChangesetID = 1, 7
			}
		}
		w.Nodes = append(w.Nodes, wn)
	}
	return w
}

// Dirs returns the true direction of every piece (indexed like Pieces).
func (in *Instance) Dirs() []orb.Orientation {
	d := make([]orb.Orientation, len(in.Pieces))
	for i := range in.Pieces {
		d[i] = in.Pieces[i].Dir
	}
	return d
}

func (in *Instance) members(withOrient bool) osm.Members {
	if withOrient {
		return in.membersPre(in.Dirs())
	}
	return in.membersPre(nil)
}

// membersPre lists the members with Orientation pre[piece] (nil: none).
func (in *Instance) membersPre(pre []orb.Orientation) osm.Members {
	var ms osm.Members
	for i, pi := range in.MemberOrder {
		if in.Label && in.LabelAt == i {
			ms = append(ms, osm.Member{Type: osm.TypeNode, Ref: int64(in.LabelID), Role: in.LabelRole})
		}
		pc := &in.Pieces[pi]
		m := osm.Member{Type: osm.TypeWay, Ref: int64(pc.ID), Role: pc.Role}
		if pre != nil {
			m.Orientation = pre[pi]
		}
		ms = append(ms, m)
	}
	if in.Label && in.LabelAt >= len(in.MemberOrder) {
		ms = append(ms, osm.Member{Type: osm.TypeNode, Ref: int64(in.LabelID), Role: in.LabelRole})
	}
	return ms
}

func (in *Instance) relation(withOrient bool) *osm.Relation {
	return &osm.Relation{ID: in.RelID, Version: 1, Visible: true, ChangesetID: 9, Timestamp: tParent,
		Tags: append(osm.Tags(nil), in.Tags...), Members: in.members(withOrient)}
}

func (in *Instance) labelNode() *osm.Node {
	return &osm.Node{ID: in.LabelID, Version: 1, Visible: true, ChangesetID: 7, Timestamp: tChild, Lat: in.LabelP.Lat(), Lon: in.LabelP.Lon()}
}

// OSM renders the instance as Convert input. onWayNodes: coordinates sit on the way nodes and
// there are no node objects; otherwise the way nodes carry ids only and the (shuffled) node
// objects carry the coordinates. withOrient: way members carry the truth's direction.
// Every call builds fresh objects.
func (in *Instance) OSM(onWayNodes, withOrient bool) *osm.OSM {
	if withOrient {
		return in.OSMPre(onWayNodes, in.Dirs())
	}
	return in.OSMPre(onWayNodes, nil)
}

// OSMPre is OSM with Member.Orientation = pre[piece] (0: member not annotated; nil: none is).
func (in *Instance) OSMPre(onWayNodes bool, pre []orb.Orientation) *osm.OSM {
	if onWayNodes {
		return in.OSMForm("W", pre)
	}
	return in.OSMForm("N", pre)
}

// OSMForm renders the instance with the coordinates supplied in one of these forms:
//
//	N   node objects; way nodes carry refs only
//	W   way nodes carry ref and location; no node objects
//	Z   way nodes carry the location only (ref 0, as in <nd lat lon/>); no node objects
//	M   no way objects: every way member embeds its path (Member.Nodes with ref and location)
//	MZ  as M, the embedded nodes without refs (what Overpass "out geom" writes)
func (in *Instance) OSMForm(form string, pre []orb.Orientation) *osm.OSM {
	onWayNodes := form != "N"
	noRef := form == "Z" || form == "MZ"
	embed := form == "M" || form == "MZ"
	o := &osm.OSM{}
	if !onWayNodes {
		for _, vi := range in.NodeOrder {
			v := in.Verts[vi]
			o.Nodes = append(o.Nodes, &osm.Node{ID: v.ID, Version: 1, Visible: true, ChangesetID: 7, Timestamp: tChild, Lat: v.P.Lat(), Lon: v.P.Lon()})
		}
	}
	if in.Label {
		o.Nodes = append(o.Nodes, in.labelNode())
	}
	strip := func(w *osm.Way) *osm.Way {
		if noRef {
			for i := range w.Nodes {
				w.Nodes[i].ID = 0
			}
		}
		return w
	}
	rel := in.relation(false)
	rel.Members = in.membersPre(pre)
	if embed {
		byID := map[int64]*Piece{}
		for i := range in.Pieces {
			byID[int64(in.Pieces[i].ID)] = &in.Pieces[i]
		}
		for i := range rel.Members {
			if rel.Members[i].Type == osm.TypeWay {
				rel.Members[i].Nodes = strip(in.way(byID[rel.Members[i].Ref], true)).Nodes
			}
		}
	} else {
		for _, pi := range in.WayOrder {
			o.Ways = append(o.Ways, strip(in.way(&in.Pieces[pi], onWayNodes)))
		}
	}
	o.Relations = osm.Relations{rel}
	return o
}

// History renders the un-annotated relation and a history datasource holding one visible
// version of every member way (with located way nodes) dated before the relation.
func (in *Instance) History() (*osm.Relation, *osm.HistoryDatasource) {
	ds := &osm.HistoryDatasource{Ways: map[osm.WayID]osm.Ways{}, Nodes: map[osm.NodeID]osm.Nodes{}}
	for i := range in.Pieces {
		w := in.way(&in.Pieces[i], true)
		ds.Ways[w.ID] = osm.Ways{w}
	}
	if in.Label {
		ds.Nodes[in.LabelID] = osm.Nodes{in.labelNode()}
	}
	return in.relation(false), ds
}

// Shape summarises the instance for signatures and violation keys:
// o<#outers>/h<holes per outer, descending>/c<cut classes present>/r<n|m|a>.
func (in *Instance) Shape() string {
	var holes []int
	for i := range in.T.Polys {
		holes = append(holes, len(in.T.Polys[i].Holes))
	}
	sort.Sort(sort.Reverse(sort.IntSlice(holes)))
	var hs strings.Builder
	for _, h := range holes {
		hs.WriteByte(byte('0' + h))
	}
	// pieces per ring
	type rk struct{ p, r int }
	cnt := map[rk]int{}
	nrev := 0
	for _, pc := range in.Pieces {
		cnt[rk{pc.Poly, pc.Ring}]++
		if pc.Reversed {
			nrev++
		}
	}
	present := map[byte]bool{}
	for k, c := range cnt {
		present[CutClass(len(in.T.Polys[k.p].Ring(k.r)), c)] = true
	}
	cs := ""
	for _, b := range []byte("c2ma") {
		if present[b] {
			cs += string(b)
		}
	}
	rev := "m"
	if nrev == 0 {
		rev = "n"
	} else if nrev == len(in.Pieces) {
		rev = "a"
	}
	return "o" + string(byte('0'+len(in.T.Polys))) + "/h" + hs.String() + "/c" + cs + "/r" + rev
}

// Describe writes the instance out for samples and replay details.
func (in *Instance) Describe() map[string]any {
	var polys []any
	for i := range in.T.Polys {
		p := &in.T.Polys[i]
		var rings []any
		for k := 0; k < p.NRings(); k++ {
			var pts [][2]float64
			for _, v := range p.Ring(k) {
				pts = append(pts, [2]float64{v.Lon(), v.Lat()})
			}
			rings = append(rings, pts)
		}
		polys = append(polys, rings)
	}
	var members []any
	for _, m := range in.members(true) {
		if m.Type != osm.TypeWay {
			members = append(members, map[string]any{"node": m.Ref, "role": m.Role})
			continue
		}
		for i := range in.Pieces {
			pc := &in.Pieces[i]
			if int64(pc.ID) != m.Ref {
				continue
			}
			var nodes []int64
			var coords [][2]float64
			for _, vi := range pc.V {
				nodes = append(nodes, int64(in.Verts[vi].ID))
				coords = append(coords, [2]float64{in.Verts[vi].P.Lon(), in.Verts[vi].P.Lat()})
			}
			members = append(members, map[string]any{"way": m.Ref, "role": m.Role, "poly": pc.Poly, "ring": pc.Ring,
				"dir": int(pc.Dir), "nodes": nodes, "coords": coords})
		}
	}
	return map[string]any{
		"truth_polygons_outer_ccw_holes_cw": polys,
		"origin":                            in.T.Origin,
		"relation_tags":                     in.Tags,
		"members_in_order":                  members,
		"shape":                             in.Shape(),
		"node_id_scheme":                    in.NodeScheme,
		"located_way_nodes_version":         map[bool]int{true: 0, false: 1}[in.NodeV0],
	}
}

// HistoryPre is History with Member.Orientation preset: pre[i] is put on the member of
// Pieces[i] (0 = not annotated). It models re-annotating an annotated relation, stale
// annotations and partially annotated members.
func (in *Instance) HistoryPre(pre []orb.Orientation) (*osm.Relation, *osm.HistoryDatasource) {
	rel, ds := in.History()
	byRef := map[int64]orb.Orientation{}
	for i := range in.Pieces {
		byRef[int64(in.Pieces[i].ID)] = pre[i]
	}
	for i := range rel.Members {
		if rel.Members[i].Type == osm.TypeWay {
			rel.Members[i].Orientation = byRef[rel.Members[i].Ref]
		}
	}
	return rel, ds
}

// Degrade takes the input out of the property's domain (rings no longer fully located, or a
// member that is no piece of any ring). Such inputs are only run, never judged.
type Degrade struct {
	// Unlocated[piece] lists positions of the way's node list that carry no location
	Unlocated map[int][]int
	// EmptyWay adds a member way without any node at member position EmptyAt
	EmptyWay  bool
	EmptyRole string
	EmptyAt   int
	EmptyID   osm.WayID
}

func (in *Instance) degradeWay(w *osm.Way, pieceIdx int, d Degrade) map[osm.NodeID]bool {
	gone := map[osm.NodeID]bool{}
	for _, pos := range d.Unlocated[pieceIdx] {
		if pos < len(w.Nodes) {
			gone[w.Nodes[pos].ID] = true
			w.Nodes[pos] = osm.WayNode{ID: w.Nodes[pos].ID}
		}
	}
	return gone
}

func (in *Instance) degradeMembers(ms osm.Members, d Degrade) osm.Members {
	if !d.EmptyWay {
		return ms
	}
	at := d.EmptyAt
	if at > len(ms) {
		at = len(ms)
	}
	out := append(osm.Members(nil), ms[:at]...)
	out = append(out, osm.Member{Type: osm.TypeWay, Ref: int64(d.EmptyID), Role: d.EmptyRole})
	return append(out, ms[at:]...)
}

// DegradedOSM is OSM(onWayNodes,false) with the degradation applied: an unlocated node has no
// coordinates on the way node and (in the node-object shape) no node object either.
func (in *Instance) DegradedOSM(onWayNodes bool, d Degrade) *osm.OSM {
	o := in.OSM(onWayNodes, false)
	gone := map[osm.NodeID]bool{}
	for k, pi := range in.WayOrder {
		for id := range in.degradeWay(o.Ways[k], pi, d) {
			gone[id] = true
		}
	}
	var keep osm.Nodes
	for _, n := range o.Nodes {
		if !gone[n.ID] {
			keep = append(keep, n)
		}
	}
	o.Nodes = keep
	if d.EmptyWay {
		o.Ways = append(o.Ways, &osm.Way{ID: d.EmptyID, Version: 1, Visible: true, ChangesetID: 7, Timestamp: tChild})
	}
	o.Relations[0].Members = in.degradeMembers(o.Relations[0].Members, d)
	return o
}

// DegradedHistory is History with the degradation applied.
func (in *Instance) DegradedHistory(d Degrade) (*osm.Relation, *osm.HistoryDatasource) {
	rel, ds := in.History()
	for i := range in.Pieces {
		in.degradeWay(ds.Ways[in.Pieces[i].ID][0], i, d)
	}
	if d.EmptyWay {
		ds.Ways[d.EmptyID] = osm.Ways{&osm.Way{ID: d.EmptyID, Version: 1, Visible: true, ChangesetID: 7, Timestamp: tChild}}
	}
	rel.Members = in.degradeMembers(rel.Members, d)
	return rel, ds
}

// FreeWayID returns a way id not used by any piece.
func (in *Instance) FreeWayID() osm.WayID {
	max := osm.WayID(0)
	for i := range in.Pieces {
		if in.Pieces[i].ID > max {
			max = in.Pieces[i].ID
		}
	}
	return max + 1
}
