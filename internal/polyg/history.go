package polyg

import (
	"sort"
	"time"

	"github.com/paulmach/osm"

	"verif/internal/gen"
)

// Relation histories: the same ground truth presented by successive versions of one relation.
// Between two relation versions some member ways get a new version that stores the same nodes
// in reverse order, some are split (the old id keeps the first part in a new version, a new way
// takes the rest), the others stay as they are; the member order changes. Every relation
// version therefore has its own expected direction per member.

func epochTime(e int) time.Time {
	if e == 0 {
		return tChild
	}
	return tParent.AddDate(e, 0, -30)
}

// Evolve derives the next relation version's presentation. At least one way is reversed.
func (in *Instance) Evolve(r *gen.R, epoch int, fresh func() osm.WayID) *Instance {
	cp := *in
	cp.Pieces = nil
	forced := r.Intn(len(in.Pieces))
	for i, pc := range in.Pieces {
		pc.V = append([]int(nil), pc.V...)
		op := weighted(r, 45, 35, 20)
		if i == forced {
			op = 1
		}
		switch {
		case op == 1: // same nodes, reverse order
			for a, b := 0, len(pc.V)-1; a < b; a, b = a+1, b-1 {
				pc.V[a], pc.V[b] = pc.V[b], pc.V[a]
			}
			pc.Dir, pc.Reversed = -pc.Dir, !pc.Reversed
			pc.Ver, pc.Epoch = pc.Ver+1, epoch
			cp.Pieces = append(cp.Pieces, pc)
		case op == 2 && len(pc.V) >= 3: // split at an inner node
			m := r.Range(1, len(pc.V)-2)
			rest := pc
			rest.V = append([]int(nil), pc.V[m:]...)
			rest.ID, rest.Ver, rest.Epoch, rest.Closed = fresh(), 0, epoch, false
			pc.V = pc.V[:m+1]
			pc.Ver, pc.Epoch, pc.Closed = pc.Ver+1, epoch, false
			cp.Pieces = append(cp.Pieces, pc, rest)
		default:
			cp.Pieces = append(cp.Pieces, pc)
		}
	}
	np := len(cp.Pieces)
	cp.MemberOrder = r.Perm(np)
	cp.WayOrder = r.Perm(np)
	if cp.LabelAt > np {
		cp.LabelAt = np
	}
	return &cp
}

// RelationHistory renders the versions as one relation's history (version k+1 written a year
// after version k) plus a datasource holding every version of every member way (located way
// nodes); a way version written for relation version k is dated 30 days before it.
func RelationHistory(versions []*Instance) (osm.Relations, *osm.HistoryDatasource) {
	ds := &osm.HistoryDatasource{Ways: map[osm.WayID]osm.Ways{}, Nodes: map[osm.NodeID]osm.Nodes{}}
	var rels osm.Relations
	seen := map[[2]int64]bool{}
	for k, in := range versions {
		rel := in.relation(false)
		rel.Version = k + 1
		rel.Timestamp = tParent.AddDate(k, 0, 0)
		rel.ChangesetID = osm.ChangesetID(9 + 100*k)
		rels = append(rels, rel)
		for i := range in.Pieces {
			pc := &in.Pieces[i]
			key := [2]int64{int64(pc.ID), int64(pc.Ver)}
			if !seen[key] {
				seen[key] = true
				ds.Ways[pc.ID] = append(ds.Ways[pc.ID], in.way(pc, true))
			}
		}
		if in.Label {
			ds.Nodes[in.LabelID] = osm.Nodes{in.labelNode()}
		}
	}
	for id := range ds.Ways {
		ws := ds.Ways[id]
		sort.Slice(ws, func(a, b int) bool { return ws[a].Version < ws[b].Version })
	}
	return rels, ds
}
