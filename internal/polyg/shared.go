package polyg

import (
	"sort"

	"github.com/paulmach/osm"

	"verif/internal/gen"
)

// Shared-border sets: K regions stand in a row like neighbouring administrative areas. K+1
// y-monotone lattice polylines P_0 < P_1 < ... < P_K run from the bottom line to the top line;
// region i is bounded by the bottom edge, P_{i+1} (upwards), the top edge and P_i (downwards).
// Every inner polyline P_1..P_{K-1} is stored ONCE, as one or more ways, and those ways are
// members of the relations on both sides: the same stored way runs clockwise around one
// relation's ring and counter-clockwise around the other's. Relations own one region each, or
// two non-adjacent regions (an area with an exclave). Each relation is a ground truth of its
// own (Instance), with node and way ids consistent across the set.

// SharedSet is a set of relations sharing border ways.
type SharedSet struct {
	Rels []*Instance
	// Regions per relation, e.g. [[0 2] [1]]
	Groups [][]int
	K      int
	// SharedWays counts the ways that are members of two relations
	SharedWays int
}

type borderKey struct{ line, lo, hi int }

// GenerateShared draws one set; every relation's truth is validated on its own.
func GenerateShared(r *gen.R) *SharedSet {
	for attempt := 0; ; attempt++ {
		if attempt > 500 {
			panic("polyg: cannot generate a shared-border set (generator bug)")
		}
		if s := tryShared(r); s != nil {
			return s
		}
	}
}

func tryShared(r *gen.R) *SharedSet {
	step := []int64{50, 1000, 25_000, 1_000_000}[r.Intn(4)]
	margin := float64(step) / 40
	K := 2 + weighted(r, 45, 40, 15)
	H := r.Range(2, 5)
	const G, ystep = 5, 2
	var ox, oy int64
	if r.Chance(0.15) {
		ox, oy = -int64(r.Intn(K*G))*step, -int64(r.Intn(H*ystep+1))*step
	} else {
		ox = int64(-170e7 + r.Float64()*(340e7-float64(int64(K+1)*G*step)))
		oy = int64(-80e7 + r.Float64()*(160e7-float64(int64(H)*ystep*step)))
	}
	pt := make([][]Pt, K+1)
	for i := range pt {
		pt[i] = make([]Pt, H+1)
		for y := 0; y <= H; y++ {
			pt[i][y] = Pt{ox + int64(i*G+r.Intn(G-1))*step, oy + int64(y*ystep)*step}
			if pt[i][y].X == 0 && pt[i][y].Y == 0 {
				return nil
			}
		}
	}
	// inner polylines: where they are cut into ways, and in which direction each way is stored
	cutLevels := make([][]int, K+1)
	dirUp := map[borderKey]bool{}
	wayOf := map[borderKey]osm.WayID{}
	nodeOf := map[Pt]osm.NodeID{}
	ids := distinctIDs(r, 4096)
	next := 0
	newID := func() int64 { next++; return ids[next-1] }
	node := func(p Pt) osm.NodeID {
		if id, ok := nodeOf[p]; ok {
			return id
		}
		id := osm.NodeID(newID())
		nodeOf[p] = id
		return id
	}
	for i := 1; i < K; i++ {
		for y := 1; y < H; y++ {
			if r.Chance(0.35) {
				cutLevels[i] = append(cutLevels[i], y)
			}
		}
	}
	// outer sides of the first and last region: random cut levels, end points optional
	for _, i := range []int{0, K} {
		for y := 0; y <= H; y++ {
			if r.Chance(0.4) {
				cutLevels[i] = append(cutLevels[i], y)
			}
		}
	}
	posR := func(y int) int { return 1 + y }
	posL := func(y int) int {
		if y == 0 {
			return 0
		}
		return 2*H + 2 - y
	}
	levelL := func(pos int) int {
		if pos == 0 {
			return 0
		}
		return 2*H + 2 - pos
	}
	type region struct {
		poly    Poly
		cuts    []RingCut
		nodeIDs []osm.NodeID
		wayIDs  []osm.WayID
	}
	regions := make([]region, K)
	shared := map[borderKey]int{}
	for i := 0; i < K; i++ {
		ring := []Pt{pt[i][0], pt[i+1][0]}
		for y := 1; y <= H; y++ {
			ring = append(ring, pt[i+1][y])
		}
		ring = append(ring, pt[i][H])
		for y := H - 1; y >= 1; y-- {
			ring = append(ring, pt[i][y])
		}
		if !Simple(ring) || Area2(ring) <= 0 {
			return nil
		}
		cutSet := map[int]bool{}
		if i+1 < K { // right side shared
			cutSet[posR(0)], cutSet[posR(H)] = true, true
		}
		for _, y := range cutLevels[i+1] {
			cutSet[posR(y)] = true
		}
		if i > 0 { // left side shared
			cutSet[posL(0)], cutSet[posL(H)] = true, true
		}
		for _, y := range cutLevels[i] {
			cutSet[posL(y)] = true
		}
		var cuts []int
		for p := range cutSet {
			cuts = append(cuts, p)
		}
		sort.Ints(cuts)
		if len(cuts) < 2 {
			return nil
		}
		rc := RingCut{Cuts: cuts, Rev: make([]bool, len(cuts))}
		reg := region{poly: Poly{Outer: ring}}
		for j := range cuts {
			a, b := cuts[j], cuts[(j+1)%len(cuts)]
			var key borderKey
			isShared, up := false, false
			switch {
			case i+1 < K && a >= posR(0) && a < posR(H) && b > a && b <= posR(H):
				key, isShared, up = borderKey{i + 1, a - 1, b - 1}, true, true
			case i > 0 && a >= posL(H) && (b == 0 || (b > a && b <= 2*H+1)):
				key, isShared, up = borderKey{i, levelL(b), levelL(a)}, true, false
			}
			if !isShared {
				rc.Rev[j] = r.Bool()
				reg.wayIDs = append(reg.wayIDs, osm.WayID(newID()))
				continue
			}
			if _, ok := wayOf[key]; !ok {
				wayOf[key] = osm.WayID(newID())
				dirUp[key] = r.Bool()
			}
			shared[key]++
			// traversal upwards meets a way stored upwards un-reversed
			rc.Rev[j] = dirUp[key] != up
			reg.wayIDs = append(reg.wayIDs, wayOf[key])
		}
		reg.cuts = []RingCut{rc}
		for _, p := range ring {
			reg.nodeIDs = append(reg.nodeIDs, node(p))
		}
		// optional hole with its own nodes and ways
		if r.Chance(0.4) {
			W := int64(G * 2)
			bx := ox + int64(i*G)*step
			inner := interiorCells(ring, bx, oy, W, int64(H*ystep), step)
			if len(inner) >= 3 {
				if h := placeLatticeHole(r, ring, inner, bx, oy, step, margin, nil); h != nil {
					if Area2(h) > 0 {
						reverse(h)
					}
					reg.poly.Holes = [][]Pt{h}
					hc := randomCut(r, len(h), "c2a"[r.Intn(3)], 0.5)
					reg.cuts = append(reg.cuts, hc)
					for _, p := range h {
						if p.X == 0 && p.Y == 0 {
							return nil
						}
						reg.nodeIDs = append(reg.nodeIDs, node(p))
					}
					for range hc.Cuts {
						reg.wayIDs = append(reg.wayIDs, osm.WayID(newID()))
					}
				}
			}
		}
		regions[i] = reg
	}
	// group regions into relations
	var groups [][]int
	switch K {
	case 2:
		groups = [][]int{{0}, {1}}
	case 3:
		groups = [][][]int{{{0}, {1}, {2}}, {{0, 2}, {1}}}[r.Intn(2)]
	default:
		groups = [][][]int{{{0}, {1}, {2}, {3}}, {{0, 2}, {1, 3}}, {{0, 2}, {1}, {3}}, {{0}, {1, 3}, {2}}}[r.Intn(4)]
	}
	s := &SharedSet{K: K, Groups: groups}
	for _, n := range shared {
		if n == 2 {
			s.SharedWays++
		}
	}
	v0 := r.Chance(0.25)
	relIDs := distinctIDs(r, len(groups))
	for gi, g := range groups {
		t := &Truth{Origin: "shared"}
		var cuts [][]RingCut
		var nodeIDs []osm.NodeID
		var wayIDs []osm.WayID
		for _, ri := range g {
			t.Polys = append(t.Polys, regions[ri].poly)
			cuts = append(cuts, regions[ri].cuts)
			nodeIDs = append(nodeIDs, regions[ri].nodeIDs...)
			wayIDs = append(wayIDs, regions[ri].wayIDs...)
		}
		if err := t.Validate(margin); err != nil {
			return nil
		}
		in := Assemble(t, cuts, nodeIDs, wayIDs)
		in.RelID = osm.RelationID(relIDs[gi])
		in.MemberOrder = r.Perm(len(in.Pieces))
		in.WayOrder = r.Perm(len(in.Pieces))
		in.NodeOrder = r.Perm(len(in.Verts))
		in.NodeV0 = v0
		in.Tags = osm.Tags{{Key: "type", Value: r.PickS("boundary", "multipolygon")}}
		if r.Bool() {
			in.Tags = append(in.Tags, osm.Tag{Key: "boundary", Value: "administrative"}, osm.Tag{Key: "name", Value: r.Word()})
		}
		s.Rels = append(s.Rels, in)
	}
	return s
}

// MergeOSM puts the per-relation inputs into one Convert input: relations in the given order,
// every way and node object once.
func MergeOSM(parts []*osm.OSM) *osm.OSM {
	o := &osm.OSM{}
	seenN := map[osm.NodeID]bool{}
	seenW := map[osm.WayID]bool{}
	for _, p := range parts {
		for _, n := range p.Nodes {
			if !seenN[n.ID] {
				seenN[n.ID] = true
				o.Nodes = append(o.Nodes, n)
			}
		}
		for _, w := range p.Ways {
			if !seenW[w.ID] {
				seenW[w.ID] = true
				o.Ways = append(o.Ways, w)
			}
		}
		o.Relations = append(o.Relations, p.Relations...)
	}
	return o
}
