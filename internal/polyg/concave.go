package polyg

import (
	"verif/internal/gen"
)

// Concave truths: an outer is the boundary of a "thick snake" — a self-avoiding path of
// blocks (5..8 lattice cells wide and high) with turns, i.e. an L, U, C, S or comb-like rectilinear
// polygon — and its holes are thin corridors (2 cells wide) running along the middle of a
// stretch of the path, so they are bent the same way and hug the concave side. Their bounding
// box centre often lies in the notch, outside their own outer. Further disjoint outers (squares
// with an optional hole) stand in free blocks of the notch, preferably right where a corridor's
// bounding-box centre falls. Everything is validated with the exact predicates.

type block struct{ x, y int }

// cellsBoundary traces the boundary of a simply connected set of unit cells counter-clockwise
// and returns its corner vertices (collinear ones dropped).
func cellsBoundary(set map[cell]bool) []cell {
	next := map[cell]cell{}
	for c := range set {
		// edges with the interior on the left
		if !set[cell{c.x, c.y - 1}] {
			next[cell{c.x, c.y}] = cell{c.x + 1, c.y}
		}
		if !set[cell{c.x + 1, c.y}] {
			next[cell{c.x + 1, c.y}] = cell{c.x + 1, c.y + 1}
		}
		if !set[cell{c.x, c.y + 1}] {
			next[cell{c.x + 1, c.y + 1}] = cell{c.x, c.y + 1}
		}
		if !set[cell{c.x - 1, c.y}] {
			next[cell{c.x, c.y + 1}] = cell{c.x, c.y}
		}
	}
	if len(next) == 0 {
		return nil
	}
	// start at the lexicographically least vertex so that the result is deterministic
	var start cell
	first := true
	for v := range next {
		if first || v.x < start.x || (v.x == start.x && v.y < start.y) {
			start, first = v, false
		}
	}
	var raw []cell
	for v, n := start, 0; n <= len(next); n++ {
		raw = append(raw, v)
		v = next[v]
		if v == start {
			break
		}
	}
	if len(raw) != len(next) {
		return nil // not a single loop (set not simply connected or touching at a corner)
	}
	var out []cell
	for i, b := range raw {
		a, c := raw[(i+len(raw)-1)%len(raw)], raw[(i+1)%len(raw)]
		if (b.x-a.x)*(c.y-a.y)-(b.y-a.y)*(c.x-a.x) != 0 {
			out = append(out, b)
		}
	}
	return out
}

func snakePath(r *gen.R, n int) []block {
	dirs := []block{{1, 0}, {0, 1}, {-1, 0}, {0, -1}}
	for attempt := 0; attempt < 50; attempt++ {
		path := []block{{0, 0}}
		d := r.Intn(4)
		for len(path) < n {
			if r.Chance(0.45) {
				d = (d + []int{1, 3}[r.Intn(2)]) % 4
			}
			nb := block{path[len(path)-1].x + dirs[d].x, path[len(path)-1].y + dirs[d].y}
			ok := true
			for k, p := range path {
				dx, dy := abs(p.x-nb.x), abs(p.y-nb.y)
				switch {
				case k == len(path)-1: // predecessor
				case dx+dy <= 1: // same block or side by side
					ok = false
				case dx == 1 && dy == 1 && k != len(path)-2: // corner contact other than at a turn
					ok = false
				}
			}
			if !ok {
				break
			}
			path = append(path, nb)
		}
		if len(path) == n {
			return path
		}
	}
	return nil
}

func abs(v int) int {
	if v < 0 {
		return -v
	}
	return v
}

// corridor returns the cells of the 2-cell wide strip running through path[a..b]; at gives the
// lattice position of a block's lower left corner.
func corridor(path []block, a, b int, at func(block) (int64, int64)) map[cell]bool {
	set := map[cell]bool{}
	fill := func(x0, y0, x1, y1 int64) {
		if x0 > x1 {
			x0, x1 = x1, x0
		}
		if y0 > y1 {
			y0, y1 = y1, y0
		}
		for x := x0; x <= x1+1; x++ {
			for y := y0; y <= y1+1; y++ {
				set[cell{x, y}] = true
			}
		}
	}
	for k := a; k <= b; k++ {
		cx, cy := at(path[k])
		cx, cy = cx+2, cy+2
		fill(cx, cy, cx, cy)
		if k < b {
			nx, ny := at(path[k+1])
			fill(cx, cy, nx+2, ny+2)
		}
	}
	return set
}

// bboxCentre2 returns twice the centre of the ring's bounding box (exact).
func bboxCentre2(ring []Pt) Pt {
	minX, maxX, minY, maxY := ring[0].X, ring[0].X, ring[0].Y, ring[0].Y
	for _, v := range ring {
		minX, maxX = min64(minX, v.X), max64(maxX, v.X)
		minY, maxY = min64(minY, v.Y), max64(maxY, v.Y)
	}
	return Pt{minX + maxX, minY + maxY}
}

func times2(ring []Pt) []Pt {
	out := make([]Pt, len(ring))
	for i, v := range ring {
		out[i] = Pt{2 * v.X, 2 * v.Y}
	}
	return out
}

// BBoxCentreStats reports, with exact arithmetic, for how many holes the centre of the bounding
// box lies outside (or on the boundary of) the hole's own outer, and for how many of those it
// lies strictly inside another polygon's outer.
func (t *Truth) BBoxCentreStats() (outside, inOther int) {
	for pi := range t.Polys {
		for _, h := range t.Polys[pi].Holes {
			c := bboxCentre2(h)
			if Locate(c, times2(t.Polys[pi].Outer)) == 1 {
				continue
			}
			outside++
			for qi := range t.Polys {
				if qi != pi && Locate(c, times2(t.Polys[qi].Outer)) == 1 {
					inOther++
					break
				}
			}
		}
	}
	return
}

// GenerateConcave draws one concave truth and the validation margin.
func GenerateConcave(r *gen.R) (*Truth, float64) {
	for attempt := 0; ; attempt++ {
		if attempt > 500 {
			panic("polyg: cannot generate a concave truth (generator bug)")
		}
		t, margin := tryConcave(r)
		if t == nil {
			continue
		}
		t.Normalise()
		if err := t.Validate(margin); err != nil {
			continue
		}
		return t, margin
	}
}

func tryConcave(r *gen.R) (*Truth, float64) {
	step := []int64{50, 1000, 25_000, 400_000}[r.Intn(4)]
	margin := float64(step) / 40
	path := snakePath(r, r.Range(3, 8))
	if path == nil {
		return nil, 0
	}
	minB, maxB := path[0], path[0]
	inPath := map[block]bool{}
	for _, p := range path {
		inPath[p] = true
		if p.x < minB.x {
			minB.x = p.x
		}
		if p.y < minB.y {
			minB.y = p.y
		}
		if p.x > maxB.x {
			maxB.x = p.x
		}
		if p.y > maxB.y {
			maxB.y = p.y
		}
	}
	// columns and rows of blocks have individual widths / heights (5..8 cells), so that the
	// layout is not symmetric and bounding-box centres do not fall onto block borders
	X0 := []int64{0}
	for x := minB.x; x <= maxB.x; x++ {
		X0 = append(X0, X0[len(X0)-1]+int64(r.Range(5, 8)))
	}
	Y0 := []int64{0}
	for y := minB.y; y <= maxB.y; y++ {
		Y0 = append(Y0, Y0[len(Y0)-1]+int64(r.Range(5, 8)))
	}
	at := func(b block) (int64, int64) { return X0[b.x-minB.x], Y0[b.y-minB.y] }
	size := func(b block) (int64, int64) {
		return X0[b.x-minB.x+1] - X0[b.x-minB.x], Y0[b.y-minB.y+1] - Y0[b.y-minB.y]
	}
	spanX, spanY := X0[len(X0)-1]*step, Y0[len(Y0)-1]*step
	t := &Truth{Origin: "concave"}
	var ox, oy int64
	if r.Chance(0.15) {
		t.Origin = "concave-straddle"
		ox, oy = -int64(r.Intn(int(spanX/step)))*step, -int64(r.Intn(int(spanY/step)))*step
	} else {
		ox = int64(-170e7 + r.Float64()*(340e7-float64(spanX)))
		oy = int64(-80e7 + r.Float64()*(160e7-float64(spanY)))
	}
	pts := func(cs []cell) []Pt { return toPts(cs, ox, oy, step) }

	cells := map[cell]bool{}
	for _, p := range path {
		x0, y0 := at(p)
		w, h := size(p)
		for x := int64(0); x < w; x++ {
			for y := int64(0); y < h; y++ {
				cells[cell{x0 + x, y0 + y}] = true
			}
		}
	}
	ob := cellsBoundary(cells)
	if ob == nil {
		return nil, 0
	}
	A := Poly{Outer: pts(ob)}
	// corridors: one over a long stretch, or two over disjoint stretches
	n := len(path)
	type span struct{ a, b int }
	var spans []span
	if n >= 7 && r.Chance(0.35) {
		m := r.Range(2, n-5)
		spans = []span{{0, m}, {m + 2, n - 1}}
	} else {
		a := r.Intn(2)
		if a > n-3 {
			a = 0
		}
		b := n - 1 - r.Intn(2)
		if b-a < 2 {
			a, b = 0, n-1
		}
		spans = []span{{a, b}}
	}
	for _, sp := range spans {
		hb := cellsBoundary(corridor(path, sp.a, sp.b, at))
		if hb == nil {
			return nil, 0
		}
		h := pts(hb)
		reverse(h)
		A.Holes = append(A.Holes, h)
	}
	t.Polys = append(t.Polys, A)
	// further outers in the notch: a rectangle around the bounding-box centre of a corridor
	// when that centre is outside the snake and there is room, else a square in a free block
	rect := func(x0, y0, x1, y1 int64) []cell { return []cell{{x0, y0}, {x1, y0}, {x1, y1}, {x0, y1}} }
	fits := func(cand []Pt) bool {
		for _, p := range t.Polys {
			if !Disjoint(cand, p.Outer, margin) {
				return false
			}
		}
		return true
	}
	addB := func(x0, y0, x1, y1 int64) bool {
		cand := pts(rect(x0, y0, x1, y1))
		if !fits(cand) {
			return false
		}
		B := Poly{Outer: cand}
		if x1-x0 >= 3 && y1-y0 >= 3 && r.Chance(0.6) {
			h := pts(rect(x0+1, y0+1, x1-1, y1-1))
			reverse(h)
			B.Holes = [][]Pt{h}
		}
		t.Polys = append(t.Polys, B)
		return true
	}
	var free []block
	for x := minB.x; x <= maxB.x; x++ {
		for y := minB.y; y <= maxB.y; y++ {
			if !inPath[block{x, y}] {
				free = append(free, block{x, y})
			}
		}
	}
	extra := weighted(r, 15, 50, 35)
	for e := 0; e < extra; e++ {
		placed := false
		if r.Chance(0.85) {
			h := A.Holes[r.Intn(len(A.Holes))]
			c := bboxCentre2(h)
			if Locate(c, times2(A.Outer)) == -1 {
				cx2, cy2 := (c.X-2*ox)/step, (c.Y-2*oy)/step // in half cells, exact
				for try := 0; try < 12 && !placed; try++ {
					e := func() int64 { return int64(r.Range(1, 3)) }
					placed = addB(floorDiv(cx2, 2)-e(), floorDiv(cy2, 2)-e(), floorDiv(cx2+1, 2)+e(), floorDiv(cy2+1, 2)+e())
				}
			}
		}
		if !placed && len(free) > 0 {
			b := free[r.Intn(len(free))]
			x0, y0 := at(b)
			w, h := size(b)
			addB(x0+1, y0+1, x0+w-1, y0+h-1)
		}
	}
	for _, v := range t.all() {
		if v.X == 0 && v.Y == 0 {
			return nil, 0
		}
	}
	// the polygons are listed in random order (the snake is not always polygon 0)
	r.Shuffle(len(t.Polys), func(i, j int) { t.Polys[i], t.Polys[j] = t.Polys[j], t.Polys[i] })
	if t.Origin == "concave" && r.Chance(0.1) {
		t.Origin = "concave-edge"
		t.TouchEdge(r)
	}
	return t, margin
}

func floorDiv(a, b int64) int64 {
	q := a / b
	if (a%b != 0) && ((a < 0) != (b < 0)) {
		q--
	}
	return q
}
