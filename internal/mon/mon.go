// Package mon holds the monitors' plumbing: instrumented readers, an event log with one
// atomic sequence counter, goroutine-dump inspection and schedule perturbation helpers.
package mon

import (
	"errors"
	"io"
	"regexp"
	"runtime"
	"strings"
	"sync"
	"sync/atomic"
	"time"
)

// Reader is an instrumented io.Reader over a byte slice. It counts bytes and Read calls,
// can serve in small chunks, delay before given offsets, fail at the n-th call, and records
// reads made after a marked instant.
type Reader struct {
	data []byte
	pos  int64

	Chunk   int                     // max bytes per Read (0 = unlimited)
	FailAt  int64                   // 1-based Read call index at which FailErr is returned (0 = never)
	FailErr error                   // error returned at FailAt
	DelayAt map[int64]time.Duration // delay before serving the read that starts at this offset
	OnRead  func(off int64, n int)  // called after every successful Read
	Gate    func(call int64)        // called at the start of every Read (call index from 1); may block
	// EagerEOF makes the Read that serves the last byte return (n, io.EOF) together, as
	// io.Reader allows and HTTP bodies with a known length do.
	EagerEOF bool

	bytes   atomic.Int64
	calls   atomic.Int64
	eofCall atomic.Int64
	inRead  atomic.Int32
	inDelay atomic.Int32
	mu      sync.Mutex
}

// NewReader wraps data.
func NewReader(data []byte) *Reader { return &Reader{data: data} }

func (r *Reader) Read(p []byte) (int, error) {
	r.inRead.Add(1)
	defer r.inRead.Add(-1)
	call := r.calls.Add(1)
	if r.FailAt > 0 && call >= r.FailAt {
		return 0, r.FailErr
	}
	if r.Gate != nil {
		r.Gate(call) // may block: the data is copied into p only afterwards
	}
	r.mu.Lock()
	pos := r.pos
	r.mu.Unlock()
	if d, ok := r.DelayAt[pos]; ok && d > 0 {
		r.inDelay.Add(1)
		time.Sleep(d)
		r.inDelay.Add(-1)
	}
	if pos >= int64(len(r.data)) {
		r.eofCall.CompareAndSwap(0, call)
		return 0, io.EOF
	}
	n := len(p)
	if r.Chunk > 0 && n > r.Chunk {
		n = r.Chunk
	}
	if rem := int64(len(r.data)) - pos; int64(n) > rem {
		n = int(rem)
	}
	copy(p, r.data[pos:pos+int64(n)])
	r.mu.Lock()
	r.pos += int64(n)
	r.mu.Unlock()
	r.bytes.Add(int64(n))
	if r.OnRead != nil {
		r.OnRead(pos, n)
	}
	if r.EagerEOF && pos+int64(n) >= int64(len(r.data)) {
		r.eofCall.CompareAndSwap(0, call)
		return n, io.EOF
	}
	return n, nil
}

// Bytes returns the number of bytes served so far.
func (r *Reader) Bytes() int64 { return r.bytes.Load() }

// InRead reports whether some goroutine is inside Read right now.
func (r *Reader) InRead() bool { return r.inRead.Load() > 0 }

// InDelay reports whether some goroutine is inside a delayed Read right now (it will write
// into the caller's buffer when the delay is over).
func (r *Reader) InDelay() bool { return r.inDelay.Load() > 0 }

// EOFCall returns the index of the first Read call that returned io.EOF (0 = none yet).
func (r *Reader) EOFCall() int64 { return r.eofCall.Load() }

// Calls returns the number of Read calls so far.
func (r *Reader) Calls() int64 { return r.calls.Load() }

// ErrBudget is returned by Endless once its logical budget is exhausted.
var ErrBudget = errors.New("verif: endless reader budget exhausted")

// Endless serves prefix and then repeats block forever; once more than Budget bytes have
// been served after Mark() it returns ErrBudget, which turns "never stops reading" into a
// counted, deterministic observation instead of a wall-clock one.
type Endless struct {
	Prefix []byte
	Block  []byte
	Budget int64

	pos      int64
	served   atomic.Int64
	marked   atomic.Bool
	markAt   atomic.Int64
	exceeded atomic.Bool
	calls    atomic.Int64
}

func (e *Endless) Read(p []byte) (int, error) {
	e.calls.Add(1)
	if e.marked.Load() && e.served.Load()-e.markAt.Load() > e.Budget {
		e.exceeded.Store(true)
		return 0, ErrBudget
	}
	n := 0
	for n < len(p) {
		var src []byte
		var off int64
		if e.pos < int64(len(e.Prefix)) {
			src, off = e.Prefix, e.pos
		} else {
			off = (e.pos - int64(len(e.Prefix))) % int64(len(e.Block))
			src = e.Block
		}
		c := copy(p[n:], src[off:])
		n += c
		e.pos += int64(c)
	}
	e.served.Add(int64(n))
	return n, nil
}

// Mark starts the budget: bytes served from now on count against Budget.
func (e *Endless) Mark() { e.markAt.Store(e.served.Load()); e.marked.Store(true) }

// Served returns the bytes served so far.
func (e *Endless) Served() int64 { return e.served.Load() }

// SinceMark returns bytes served since Mark.
func (e *Endless) SinceMark() int64 { return e.served.Load() - e.markAt.Load() }

// Exceeded reports whether the budget was exhausted.
func (e *Endless) Exceeded() bool { return e.exceeded.Load() }

// ---------------------------------------------------------------------------------------

// Event is one monitor observation.
type Event struct {
	Seq  int64
	Kind string
	A, B int64
}

// Log is an append-only event log with a single atomic sequence counter.
type Log struct {
	seq atomic.Int64
	mu  sync.Mutex
	ev  []Event
}

// Add appends an event and returns its sequence number.
func (l *Log) Add(kind string, a, b int64) int64 {
	s := l.seq.Add(1)
	l.mu.Lock()
	l.ev = append(l.ev, Event{s, kind, a, b})
	l.mu.Unlock()
	return s
}

// Tick returns the next sequence number without recording an event.
func (l *Log) Tick() int64 { return l.seq.Add(1) }

// Events returns a copy of the log ordered by sequence number.
func (l *Log) Events() []Event {
	l.mu.Lock()
	defer l.mu.Unlock()
	out := append([]Event(nil), l.ev...)
	// appends happen under the mutex but seq is taken before it: sort
	for i := 1; i < len(out); i++ {
		for j := i; j > 0 && out[j].Seq < out[j-1].Seq; j-- {
			out[j], out[j-1] = out[j-1], out[j]
		}
	}
	return out
}

// Len returns the number of events.
func (l *Log) Len() int {
	l.mu.Lock()
	defer l.mu.Unlock()
	return len(l.ev)
}

// ---------------------------------------------------------------------------------------

var gorSplit = regexp.MustCompile(`(?m)^goroutine \d+ \[`)

// Goroutines returns the stack blocks of all live goroutines that contain substr.
func Goroutines(substr string) []string {
	buf := make([]byte, 1<<20)
	for {
		n := runtime.Stack(buf, true)
		if n < len(buf) {
			buf = buf[:n]
			break
		}
		buf = make([]byte, 2*len(buf))
	}
	s := string(buf)
	idx := gorSplit.FindAllStringIndex(s, -1)
	var out []string
	for k, loc := range idx {
		end := len(s)
		if k+1 < len(idx) {
			end = idx[k+1][0]
		}
		blk := s[loc[0]:end]
		if strings.Contains(blk, substr) {
			out = append(out, blk)
		}
	}
	return out
}

// LibGoroutines returns live goroutines currently executing (or created by) code of the
// given library package path, excluding the calling goroutine.
func LibGoroutines(pkg string) []string {
	var out []string
	for _, g := range Goroutines(pkg) {
		if strings.Contains(g, "mon.LibGoroutines") {
			continue
		}
		out = append(out, g)
	}
	return out
}

// WaitNoLibGoroutines polls (yielding, no verdict from time) until no goroutine of pkg is
// left or the poll budget is used up; it returns the remaining goroutines.
func WaitNoLibGoroutines(pkg string, polls int) []string {
	var left []string
	// The common outcome (nothing left) returns at once; the budget only matters when something
	// is left, and then it must be generous: on a loaded machine a goroutine that has already
	// passed its last synchronisation point can wait a long time for a CPU before it is gone.
	polls *= 10
	for i := 0; i < polls; i++ {
		left = LibGoroutines(pkg)
		if len(left) == 0 {
			return nil
		}
		runtime.Gosched()
		d := time.Duration(i+1) * 100 * time.Microsecond
		if d > 2*time.Millisecond {
			d = 2 * time.Millisecond
		}
		time.Sleep(d)
	}
	return left
}

// GoroutineState extracts the state in "goroutine N [state...]:".
func GoroutineState(block string) string {
	i := strings.Index(block, "[")
	j := strings.Index(block, "]")
	if i < 0 || j < i {
		return ""
	}
	st := block[i+1 : j]
	if k := strings.Index(st, ","); k >= 0 {
		st = st[:k]
	}
	return st
}

// Blocked reports whether a goroutine state means "cannot progress on its own".
func Blocked(state string) bool {
	return strings.HasPrefix(state, "chan ") || strings.HasPrefix(state, "select") ||
		strings.HasPrefix(state, "semacquire") || strings.HasPrefix(state, "sync.")
}

// ---------------------------------------------------------------------------------------

// VPart is a run of identical chunks in a Virtual stream.
type VPart struct {
	Data   []byte
	Repeat int
}

// Virtual is a read-only stream made of repeated parts, served without materialising it: a
// multi-gigabyte input in a few megabytes of memory. Start positions the stream.
type Virtual struct {
	Parts []VPart
	pos   int64
	bytes atomic.Int64
}

// Size returns the total length of the virtual stream.
func (v *Virtual) Size() int64 {
	var n int64
	for _, p := range v.Parts {
		n += int64(len(p.Data)) * int64(p.Repeat)
	}
	return n
}

// At returns a new reader over the same parts positioned at absolute offset off.
func (v *Virtual) At(off int64) *Virtual { return &Virtual{Parts: v.Parts, pos: off} }

func (v *Virtual) Read(p []byte) (int, error) {
	n := 0
	for n < len(p) {
		// locate pos
		off := v.pos
		var src []byte
		var within int64
		found := false
		for _, part := range v.Parts {
			l := int64(len(part.Data)) * int64(part.Repeat)
			if off < l {
				within = off % int64(len(part.Data))
				src = part.Data
				found = true
				break
			}
			off -= l
		}
		if !found {
			if n == 0 {
				return 0, io.EOF
			}
			break
		}
		c := copy(p[n:], src[within:])
		n += c
		v.pos += int64(c)
	}
	v.bytes.Add(int64(n))
	return n, nil
}

// SeekReader is an io.ReadSeeker with ONE shared position (like an *os.File) and an optional
// delay per Read; it records reads that arrive after a Seek from a stale user.
type SeekReader struct {
	Data  []byte
	Delay time.Duration
	mu    sync.Mutex
	pos   int64
	calls atomic.Int64
}

func (s *SeekReader) Read(p []byte) (int, error) {
	s.calls.Add(1)
	if s.Delay > 0 {
		time.Sleep(s.Delay)
	}
	s.mu.Lock()
	defer s.mu.Unlock()
	if s.pos >= int64(len(s.Data)) {
		return 0, io.EOF
	}
	n := copy(p, s.Data[s.pos:])
	s.pos += int64(n)
	return n, nil
}

// Seek implements io.Seeker (whence 0 only).
func (s *SeekReader) Seek(off int64, whence int) (int64, error) {
	s.mu.Lock()
	defer s.mu.Unlock()
	s.pos = off
	return off, nil
}

// Calls returns the number of Read calls.
func (s *SeekReader) Calls() int64 { return s.calls.Load() }
