// Package eq holds the harness' own canonical dump, semantic equality and deep clone of osm
// values. None of it uses a marshaller of the library under test.
package eq

import (
	"fmt"
	"reflect"
	"sort"
	"strconv"
	"strings"
	"time"
)

var timeType = reflect.TypeOf(time.Time{})

// Options tune the canonical dump.
type Options struct {
	// SkipFields lists "Type.Field" names left out of the dump.
	SkipFields map[string]bool
	// SortTags dumps osm.Tags sorted by key then value (tag order not significant).
	SortTags bool
}

// Dump renders v as deterministic text: times as UTC instants, nil slices and empty slices
// alike, nil pointers as "nil", XMLName fields skipped, struct fields in declaration order.
func Dump(v any) string { return DumpWith(v, Options{}) }

// DumpWith is Dump with options.
func DumpWith(v any, o Options) string {
	var sb strings.Builder
	dump(&sb, reflect.ValueOf(v), o)
	return sb.String()
}

// Equal is semantic equality: equal canonical dumps.
func Equal(a, b any) bool { return Dump(a) == Dump(b) }

func dump(sb *strings.Builder, v reflect.Value, o Options) {
	if !v.IsValid() {
		sb.WriteString("nil")
		return
	}
	switch v.Kind() {
	case reflect.Interface, reflect.Ptr:
		if v.IsNil() {
			sb.WriteString("nil")
			return
		}
		if v.Kind() == reflect.Ptr {
			sb.WriteString("&")
		}
		dump(sb, v.Elem(), o)
	case reflect.Struct:
		if v.Type() == timeType {
			t := v.Interface().(time.Time)
			if t.IsZero() {
				sb.WriteString("T0")
			} else {
				sb.WriteString("T" + strconv.FormatInt(t.Unix(), 10) + "." + strconv.Itoa(t.Nanosecond()))
			}
			return
		}
		tn := v.Type().Name()
		sb.WriteString(tn + "{")
		first := true
		for i := 0; i < v.NumField(); i++ {
			f := v.Type().Field(i)
			if f.Name == "XMLName" || f.PkgPath != "" {
				continue
			}
			if o.SkipFields != nil && o.SkipFields[tn+"."+f.Name] {
				continue
			}
			if !first {
				sb.WriteString(" ")
			}
			first = false
			sb.WriteString(f.Name + ":")
			dump(sb, v.Field(i), o)
		}
		sb.WriteString("}")
	case reflect.Slice, reflect.Array:
		if v.Kind() == reflect.Slice && v.Type().Elem().Kind() == reflect.Uint8 {
			sb.WriteString(fmt.Sprintf("%x", v.Bytes()))
			return
		}
		n := v.Len()
		if o.SortTags && v.Type().Name() == "Tags" {
			items := make([]string, n)
			for i := 0; i < n; i++ {
				var s strings.Builder
				dump(&s, v.Index(i), o)
				items[i] = s.String()
			}
			sort.Strings(items)
			sb.WriteString("[" + strings.Join(items, " ") + "]")
			return
		}
		sb.WriteString("[")
		for i := 0; i < n; i++ {
			if i > 0 {
				sb.WriteString(" ")
			}
			dump(sb, v.Index(i), o)
		}
		sb.WriteString("]")
	case reflect.Map:
		keys := v.MapKeys()
		items := make([]string, len(keys))
		for i, k := range keys {
			var s strings.Builder
			dump(&s, k, o)
			s.WriteString("=>")
			dump(&s, v.MapIndex(k), o)
			items[i] = s.String()
		}
		sort.Strings(items)
		sb.WriteString("map[" + strings.Join(items, " ") + "]")
	case reflect.String:
		sb.WriteString(strconv.Quote(v.String()))
	case reflect.Bool:
		sb.WriteString(strconv.FormatBool(v.Bool()))
	case reflect.Int, reflect.Int8, reflect.Int16, reflect.Int32, reflect.Int64:
		sb.WriteString(strconv.FormatInt(v.Int(), 10))
	case reflect.Uint, reflect.Uint8, reflect.Uint16, reflect.Uint32, reflect.Uint64:
		sb.WriteString(strconv.FormatUint(v.Uint(), 10))
	case reflect.Float32, reflect.Float64:
		sb.WriteString(strconv.FormatFloat(v.Float(), 'g', -1, 64))
	case reflect.Func:
		if v.IsNil() {
			sb.WriteString("nilfunc")
		} else {
			sb.WriteString("func")
		}
	default:
		sb.WriteString(fmt.Sprintf("%v", v.Interface()))
	}
}

// Clone makes a deep copy of v (pointers, slices, maps, structs; unexported fields are
// copied shallowly with their containing struct).
func Clone[T any](v T) T {
	rv := reflect.ValueOf(&v).Elem()
	out := reflect.New(rv.Type()).Elem()
	clone(out, rv)
	return out.Interface().(T)
}

func clone(dst, src reflect.Value) {
	switch src.Kind() {
	case reflect.Ptr:
		if src.IsNil() {
			return
		}
		n := reflect.New(src.Type().Elem())
		clone(n.Elem(), src.Elem())
		dst.Set(n)
	case reflect.Interface:
		if src.IsNil() {
			return
		}
		inner := src.Elem()
		n := reflect.New(inner.Type()).Elem()
		clone(n, inner)
		dst.Set(n)
	case reflect.Struct:
		if src.Type() == timeType {
			dst.Set(src)
			return
		}
		dst.Set(src) // copies unexported fields too
		for i := 0; i < src.NumField(); i++ {
			if src.Type().Field(i).PkgPath != "" {
				continue
			}
			clone(dst.Field(i), src.Field(i))
		}
	case reflect.Slice:
		if src.IsNil() {
			return
		}
		n := reflect.MakeSlice(src.Type(), src.Len(), src.Len())
		for i := 0; i < src.Len(); i++ {
			clone(n.Index(i), src.Index(i))
		}
		dst.Set(n)
	case reflect.Array:
		for i := 0; i < src.Len(); i++ {
			clone(dst.Index(i), src.Index(i))
		}
	case reflect.Map:
		if src.IsNil() {
			return
		}
		n := reflect.MakeMapWithSize(src.Type(), src.Len())
		for _, k := range src.MapKeys() {
			kv := reflect.New(k.Type()).Elem()
			clone(kv, k)
			vv := reflect.New(src.Type().Elem()).Elem()
			clone(vv, src.MapIndex(k))
			n.SetMapIndex(kv, vv)
		}
		dst.Set(n)
	default:
		dst.Set(src)
	}
}

// Diff returns a short description of the first difference between two dumps.
func Diff(a, b string) string {
	n := len(a)
	if len(b) < n {
		n = len(b)
	}
	i := 0
	for i < n && a[i] == b[i] {
		i++
	}
	if i == len(a) && i == len(b) {
		return ""
	}
	lo := i - 60
	if lo < 0 {
		lo = 0
	}
	ha, hb := i+80, i+80
	if ha > len(a) {
		ha = len(a)
	}
	if hb > len(b) {
		hb = len(b)
	}
	return fmt.Sprintf("at byte %d: want …%s… got …%s…", i, a[lo:ha], b[lo:hb])
}
