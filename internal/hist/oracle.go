package hist

import (
	"errors"
	"fmt"
	"sort"
	"strings"

	"github.com/paulmach/osm"
	"github.com/paulmach/osm/annotate"

	"verif/internal/eq"
	"verif/internal/gen"
)

// Finding is one refuting observation of the C11 oracles.
type Finding struct {
	Class string // stable failure class
	Shape string // compact description of the failing spot (no seed, no case index)
	Msg   string
}

// Stats counts what the oracles evaluated.
type Stats struct {
	BasesStrict, BasesPermissive int
	UpdatesChecked               int
	OptionalSeen                 int
	States                       int // time-travel child states compared
	Times                        int // time-travel instants
	ErrorsJustified              int
	ReverseChecked, ReverseTrue  int // Update.Reverse of way members compared with the reference / expected true
	OrientationStates            int // Member.Orientation after ApplyUpdatesUpTo compared
	Untouched                    int
}

// obsRef is the annotation found on one child reference.
type obsRef struct {
	Version  int
	CS       int64
	Lat, Lon float64
}

func obsOfWay(w *osm.Way) []obsRef {
	out := make([]obsRef, len(w.Nodes))
	for j, n := range w.Nodes {
		out[j] = obsRef{n.Version, int64(n.ChangesetID), n.Lat, n.Lon}
	}
	return out
}

func obsOfRel(r *osm.Relation) []obsRef {
	out := make([]obsRef, len(r.Members))
	for j, n := range r.Members {
		out[j] = obsRef{n.Version, int64(n.ChangesetID), n.Lat, n.Lon}
	}
	return out
}

func inputRef(r Ref, j int) obsRef {
	if r.Pre {
		return obsRef{preVersion(j), PreChangeset, PreLat, PreLon}
	}
	if r.Loc {
		return obsRef{0, 0, PreLat, PreLon}
	}
	return obsRef{}
}

type checker struct {
	h   *H
	m   *Model
	run *Run
	fs  []Finding
	st  Stats
}

func (c *checker) kind() string {
	k := "rel"
	if c.h.Way {
		k = "way"
	}
	if c.h.Span {
		return k + "/span"
	}
	return k + "/" + c.h.Regime.String()
}

func (c *checker) add(class, shape, format string, a ...any) {
	c.fs = append(c.fs, Finding{Class: class, Shape: c.kind() + "/" + shape, Msg: fmt.Sprintf(format, a...)})
}

func (c *checker) filteredOut(r Ref) bool {
	return r.Pre && c.h.Filter != nil && !c.h.Filter[r.Child]
}

func (c *checker) mode(x int) string {
	if c.m.Strict(x) {
		return "strict"
	}
	return "permissive"
}

func findVersion(vs []Ver, version int) int {
	for k, v := range vs {
		if v.Version == version {
			return k
		}
	}
	return -1
}

// matches reports whether an observed annotation carries exactly the data of version v.
func matches(ch *Child, v Ver, o obsRef) bool {
	if o.Version != v.Version || o.CS != v.CS {
		return false
	}
	if ch.Type == osm.TypeNode && (o.Lat != v.Lat || o.Lon != v.Lon) {
		return false
	}
	return true
}

func (c *checker) obs(i int) ([]obsRef, osm.Updates) {
	if c.h.Way {
		return obsOfWay(c.run.Ways[i]), c.run.Ways[i].Updates
	}
	return obsOfRel(c.run.Relations[i]), c.run.Relations[i].Updates
}

// spot describes the neighbourhood of (parent i, child x) for violation keys.
func (c *checker) spot(i, x int, nUpdates int) string {
	occ := 0
	for _, r := range c.h.Parents[i].Refs {
		if r.Child == x {
			occ++
		}
	}
	same := 1
	seen := map[int64]int{}
	for _, v := range c.m.vers(x) {
		seen[v.Sec]++
		if seen[v.Sec] > same {
			same = seen[v.Sec]
		}
	}
	bucket := func(n int) string {
		switch {
		case n <= 1:
			return "1"
		case n == 2:
			return "2"
		}
		return "3+"
	}
	big := "updates<=12"
	if nUpdates > 12 {
		big = "updates>12"
	}
	return fmt.Sprintf("%s/same-second=%s/indices=%s/%s", c.mode(x), bucket(same), bucket(occ), big)
}

// Check runs the C11 oracles on one execution.
func Check(h *H, run *Run, r *gen.R) ([]Finding, Stats) {
	c := &checker{h: h, m: NewModel(h), run: run}
	if run.Panic != "" {
		opt := "plain"
		if h.IgnoreInc {
			opt = "ignore-inconsistency"
		}
		what := "history"
		for _, ch := range h.Children {
			if ch.Empty {
				what = "empty-history"
			}
		}
		c.fs = append(c.fs, Finding{Class: "panic", Shape: what + "/" + opt, Msg: "annotation panicked: " + run.Panic})
		return c.fs, c.st
	}
	if h.Mixed {
		return nil, c.st // mixed-regime histories are only executed
	}
	// an injected datasource failure must surface as an error
	for x, ch := range h.Children {
		if ch.Fail && c.lookedUp(x, false) {
			if run.Err == nil {
				c.add("ds-failure-swallowed", "any", "the datasource failed for %v but annotation returned nil", ch.FID())
			}
			return c.fs, c.st
		}
	}
	if run.Err != nil {
		c.checkError()
		return c.fs, c.st
	}
	c.checkAnnotations()
	if len(c.fs) == 0 {
		c.timeTravel(r)
	}
	return c.fs, c.st
}

// lookedUp: some parent version (visibleOnly: some visible one) references x at an index the
// filter does not exclude.
func (c *checker) lookedUp(x int, visibleOnly bool) bool {
	for _, p := range c.h.Parents {
		if visibleOnly && !p.Visible {
			continue
		}
		for _, r := range p.Refs {
			if r.Child == x && !c.filteredOut(r) {
				return true
			}
		}
	}
	return false
}

func (c *checker) childByFID(id osm.FeatureID) int {
	for x := range c.h.Children {
		if c.h.Children[x].FID() == id {
			return x
		}
	}
	return -1
}

// usedVisible lists the visible parent versions that reference x at an unfiltered index.
func (c *checker) usedVisible(x int) []int {
	var out []int
	for i, p := range c.h.Parents {
		if !p.Visible {
			continue
		}
		for _, r := range p.Refs {
			if r.Child == x && !c.filteredOut(r) {
				out = append(out, i)
				break
			}
		}
	}
	return out
}

func (c *checker) nilPossible(x int) bool {
	for _, i := range c.usedVisible(x) {
		if c.m.Base(x, i).NilOK {
			return true
		}
	}
	return false
}

func (c *checker) delPossible(x int) bool {
	for _, i := range c.usedVisible(x) {
		for _, b := range c.m.Base(x, i).Accept {
			if c.m.Updates(x, i, b, NextUnknown).DelPossible {
				return true
			}
		}
	}
	return false
}

// checkError decides whether the returned error is justified by the history.
func (c *checker) checkError() {
	h, err := c.h, c.run.Err
	var nh *annotate.NoHistoryError
	var nv *annotate.NoVisibleChildError
	switch {
	case errors.As(err, &nh):
		x := c.childByFID(nh.ID)
		ok := x >= 0 && !h.IgnoreMissing && (h.Children[x].Missing || h.Children[x].Empty) && c.lookedUp(x, false)
		if !ok {
			c.add("error-class", "spurious-no-history", "NoHistoryError for %v is not justified (missing=%v, ignore=%v)", nh.ID, x >= 0 && h.Children[x].Missing, h.IgnoreMissing)
			return
		}
	case errors.As(err, &nv):
		x := c.childByFID(nv.ID)
		ok := x >= 0 && !h.IgnoreInc && !h.Children[x].Missing && (c.nilPossible(x) || c.delPossible(x))
		if !ok {
			c.add("error-class", "spurious-no-visible-child", "NoVisibleChildError for %v is not justified: the child is visible at every parent version that uses it", nv.ID)
			return
		}
	default:
		// untyped: promised only for a child deleted between parent versions
		ok := false
		if !h.IgnoreInc {
			for x := range h.Children {
				if !h.Children[x].Missing && c.delPossible(x) {
					ok = true
				}
			}
		}
		if !ok {
			// would a typed error have been due?
			due := ""
			for x := range h.Children {
				if h.Children[x].Missing && !h.IgnoreMissing && c.lookedUp(x, true) {
					due = "missing history (want *NoHistoryError)"
				}
				if !h.Children[x].Missing && !h.IgnoreInc && c.nilPossible(x) {
					due = "no visible child (want *NoVisibleChildError)"
				}
			}
			if due != "" {
				c.add("error-class", "untyped-for-documented-case", "error %q is not of the documented type: %s", err, due)
			} else {
				c.add("error-class", "spurious-error", "error %q although the history is consistent", err)
			}
			return
		}
	}
	c.st.ErrorsJustified++
}

// observedBase maps the annotation at (i,j) to a version index of the child (-1: untouched).
func (c *checker) observedBase(i, j int, o obsRef) (b int, ok bool) {
	r := c.h.Parents[i].Refs[j]
	if o == inputRef(r, j) {
		return -1, true
	}
	vs := c.m.vers(r.Child)
	k := findVersion(vs, o.Version)
	if k < 0 || !matches(&c.h.Children[r.Child], vs[k], o) {
		return -1, false
	}
	return k, true
}

func (c *checker) nextObserved(i, x int) int {
	if i+1 >= len(c.h.Parents) || !c.h.Parents[i+1].Visible {
		return NextUnknown
	}
	if c.h.Children[x].Missing {
		return NextUnknown
	}
	refs, _ := c.obs(i + 1)
	for j, r := range c.h.Parents[i+1].Refs {
		if r.Child == x && !c.filteredOut(r) {
			b, ok := c.observedBase(i+1, j, refs[j])
			if !ok {
				return NextUnknown
			}
			return b
		}
	}
	return NextUnknown
}

func (c *checker) checkAnnotations() {
	h := c.h
	n := len(h.Parents)
	got := len(c.run.Ways)
	if !h.Way {
		got = len(c.run.Relations)
	}
	if got != n {
		c.add("shape", "parents", "%d parent versions in, %d out", n, got)
		return
	}
	for i, p := range h.Parents {
		refs, ups := c.obs(i)
		if len(refs) != len(p.Refs) {
			c.add("shape", "refs", "parent version %d: %d references in, %d out", p.Version, len(p.Refs), len(refs))
			return
		}
		c.checkOtherFields(i)
		if !p.Visible {
			for j, r := range p.Refs {
				if refs[j] != inputRef(r, j) {
					c.add("deleted-parent-annotated", "ref", "deleted parent version %d: reference %d was changed to %+v", p.Version, j, refs[j])
				}
			}
			if len(ups) != 0 {
				c.add("deleted-parent-annotated", "updates", "deleted parent version %d received %d updates", p.Version, len(ups))
			}
			continue
		}
		byIdx := map[int]osm.Updates{}
		for _, u := range ups {
			if u.Index < 0 || u.Index >= len(p.Refs) {
				c.add("update-index", "out-of-range", "parent version %d: update index %d with %d references", p.Version, u.Index, len(p.Refs))
				continue
			}
			byIdx[u.Index] = append(byIdx[u.Index], u)
		}
		for j, r := range p.Refs {
			x := r.Child
			ch := &h.Children[x]
			us := byIdx[j]
			switch {
			case c.filteredOut(r):
				if refs[j] != inputRef(r, j) {
					c.add("filter", "filtered-ref-touched", "parent version %d index %d (%v) is pre-annotated and rejected by the filter but was changed to %+v", p.Version, j, ch.FID(), refs[j])
				}
				if len(us) != 0 {
					c.add("filter", "filtered-ref-updates", "parent version %d index %d is rejected by the filter but received %d updates", p.Version, j, len(us))
				}
				c.st.Untouched++
				continue
			case ch.Missing:
				if !h.IgnoreMissing {
					c.add("error-class", "missing-history-unreported", "history of %v is missing, IgnoreMissingChildren is off, yet annotation returned nil", ch.FID())
				}
				if refs[j] != inputRef(r, j) || len(us) != 0 {
					c.add("missing-child-annotated", "any", "parent version %d index %d: child %v has no history but was annotated (%+v, %d updates)", p.Version, j, ch.FID(), refs[j], len(us))
				}
				c.st.Untouched++
				continue
			}
			be := c.m.Base(x, i)
			if c.m.Strict(x) {
				c.st.BasesStrict++
			} else {
				c.st.BasesPermissive++
			}
			b, ok := c.observedBase(i, j, refs[j])
			switch {
			case !ok:
				c.add("base-fields", c.mode(x), "parent version %d index %d (%v): annotation %+v is not a version of the child with its own changeset/location", p.Version, j, ch.FID(), refs[j])
				continue
			case b < 0 && !be.NilOK:
				c.add("base-missing", c.mode(x), "parent version %d index %d (%v) was left unannotated; acceptable versions %v", p.Version, j, ch.FID(), c.versionsOf(x, be.Accept))
				continue
			case b < 0 && ch.Empty && h.IgnoreMissing:
				// an empty history may also be read as a missing one
				continue
			case b < 0 && !h.IgnoreInc:
				c.add("error-class", "no-visible-child-unreported", "parent version %d index %d: %v has no visible version at the parent's time, IgnoreInconsistency is off, yet annotation returned nil", p.Version, j, ch.FID())
				continue
			case b >= 0 && !be.Has(b):
				c.add("base-wrong", c.spotBase(i, x), "parent version %d (t=%d cs=%d) index %d (%v): annotated with version %d, acceptable %v (nil acceptable: %v)", p.Version, p.Sec, p.CS, j, ch.FID(), refs[j].Version, c.versionsOf(x, be.Accept), be.NilOK)
				continue
			}
			ue := c.m.Updates(x, i, b, c.nextObserved(i, x))
			if ue.DelCertain && !h.IgnoreInc {
				c.add("error-class", "deletion-unreported", "parent version %d index %d: %v is deleted between this parent version and the next, IgnoreInconsistency is off, yet annotation returned nil", p.Version, j, ch.FID())
			}
			vs := c.m.vers(x)
			seen := map[int]bool{}
			for _, u := range us {
				c.st.UpdatesChecked++
				k := findVersion(vs, u.Version)
				if k < 0 {
					c.add("update-fields", "unknown-version", "parent version %d index %d: update names version %d which %v never had", p.Version, j, u.Version, ch.FID())
					continue
				}
				v := vs[k]
				o := obsRef{u.Version, int64(u.ChangesetID), u.Lat, u.Lon}
				if !matches(ch, v, o) || !u.Timestamp.Equal(c.h.At(v.Sec)) {
					c.add("update-fields", c.mode(x), "parent version %d index %d: update %+v does not carry the data / effective time (%d) of version %d", p.Version, j, u, v.Sec, v.Version)
					continue
				}
				if exp, ok := c.m.ExpectedReverse(x, k); ok {
					c.st.ReverseChecked++
					if exp {
						c.st.ReverseTrue++
					}
					if u.Reverse != exp {
						shape := "open-way"
						if ch.Closed {
							shape = "closed-way"
						}
						c.add("update-reverse", shape, "parent version %d index %d (%v): update to version %d has Reverse=%v, but the way is %s with respect to its previous version %d (closed=%v, rev %v->%v, alt %d->%d)",
							p.Version, j, ch.FID(), v.Version, u.Reverse, map[bool]string{true: "reversed", false: "not reversed"}[exp], vs[k-1].Version, ch.Closed, vs[k-1].Rev, v.Rev, vs[k-1].Alt, v.Alt)
					}
				}
				if seen[k] {
					c.add("update-duplicate", c.mode(x), "parent version %d index %d: version %d listed twice", p.Version, j, v.Version)
					continue
				}
				seen[k] = true
				switch {
				case ue.Required[k]:
				case ue.Optional[k]:
					c.st.OptionalSeen++
				default:
					c.add("update-unexpected", c.spot(i, x, len(ups)), "parent version %d index %d (%v, base v%d): update to version %d (t=%d) does not belong to this parent version; required %v optional %v", p.Version, j, ch.FID(), c.verNo(x, b), v.Version, v.Sec, c.versionsOfSet(x, ue.Required), c.versionsOfSet(x, ue.Optional))
				}
			}
			for k := range ue.Required {
				if !seen[k] {
					c.add("update-missing", c.spot(i, x, len(ups)), "parent version %d index %d (%v, base v%d): no update to version %d (t=%d)", p.Version, j, ch.FID(), c.verNo(x, b), vs[k].Version, vs[k].Sec)
				}
			}
		}
	}
}

func (c *checker) spotBase(i, x int) string {
	cls := "commit"
	if c.m.Pre(c.h.Parents[i].Sec) {
		cls = c.m.windowClass(x, c.h.Parents[i].Sec, c.h.Parents[i].CS)
		if cls == "" {
			cls = "mixed"
		}
	}
	return c.mode(x) + "/window=" + cls
}

func (c *checker) verNo(x, k int) int {
	if k < 0 {
		return 0
	}
	return c.m.vers(x)[k].Version
}

func (c *checker) versionsOf(x int, idx []int) []int {
	out := []int{}
	for _, k := range idx {
		out = append(out, c.verNo(x, k))
	}
	sort.Ints(out)
	return out
}

func (c *checker) versionsOfSet(x int, set map[int]bool) []int {
	var idx []int
	for k := range set {
		idx = append(idx, k)
	}
	return c.versionsOf(x, idx)
}

// checkOtherFields: annotation only writes child annotations and the update list.
func (c *checker) checkOtherFields(i int) {
	skip := eq.Options{SkipFields: map[string]bool{"Member.Orientation": true}}
	var want, got string
	if c.h.Way {
		in := c.h.BuildWays()[i]
		out := c.run.Ways[i]
		for j := range in.Nodes {
			if j < len(out.Nodes) {
				in.Nodes[j].Version, in.Nodes[j].ChangesetID = out.Nodes[j].Version, out.Nodes[j].ChangesetID
				in.Nodes[j].Lat, in.Nodes[j].Lon = out.Nodes[j].Lat, out.Nodes[j].Lon
			}
		}
		in.Updates = out.Updates
		want, got = eq.DumpWith(in, skip), eq.DumpWith(out, skip)
	} else {
		in := c.h.BuildRelations()[i]
		out := c.run.Relations[i]
		for j := range in.Members {
			if j < len(out.Members) {
				in.Members[j].Version, in.Members[j].ChangesetID = out.Members[j].Version, out.Members[j].ChangesetID
				in.Members[j].Lat, in.Members[j].Lon = out.Members[j].Lat, out.Members[j].Lon
			}
		}
		in.Updates = out.Updates
		want, got = eq.DumpWith(in, skip), eq.DumpWith(out, skip)
	}
	if want != got {
		c.add("other-fields-changed", "any", "parent version %d: fields other than child annotations and updates changed: %s", c.h.Parents[i].Version, eq.Diff(want, got))
	}
}

// timeTravel applies the produced updates up to sampled instants on clones and compares every
// child with the version in effect at that instant.
func (c *checker) timeTravel(r *gen.R) {
	h := c.h
	for i, p := range h.Parents {
		if !p.Visible {
			continue
		}
		refs, ups := c.obs(i)
		lim, hasNext := c.m.Lim(i)
		// candidate instants
		cand := map[int64]bool{p.Sec: true}
		for _, u := range ups {
			s := c.h.Tick(u.Timestamp)
			cand[s], cand[s-1], cand[s+1] = true, true, true
			if tps := c.h.TPS(); tps > 1 { // a second away, and the ends of the update's second
				cand[s-tps], cand[s+tps], cand[s-s%tps], cand[s-s%tps+tps-1] = true, true, true, true
			}
		}
		var hi int64 = p.Sec + 100
		for _, rf := range p.Refs {
			for _, v := range c.m.vers(rf.Child) {
				if v.Sec >= p.Sec {
					cand[v.Sec], cand[v.Sec-1], cand[v.Sec+1] = true, true, true
				}
				if v.Sec+100 > hi {
					hi = v.Sec + 100
				}
			}
		}
		if hasNext {
			cand[lim-1] = true
			hi = lim - 1
		}
		if r != nil && hi > p.Sec {
			for k := 0; k < 6; k++ {
				cand[r.Int64Range(p.Sec, hi)] = true
			}
		}
		var ts []int64
		for t := range cand {
			if t >= p.Sec && (!hasNext || t < lim) {
				ts = append(ts, t)
			}
		}
		sort.Slice(ts, func(a, b int) bool { return ts[a] < ts[b] })
		if len(ts) > 60 && r != nil {
			// keep the first, the last and a random subset
			keep := map[int64]bool{ts[0]: true, ts[len(ts)-1]: true}
			for _, k := range r.Perm(len(ts))[:58] {
				keep[ts[k]] = true
			}
			var sub []int64
			for _, t := range ts {
				if keep[t] {
					sub = append(sub, t)
				}
			}
			ts = sub
		}
		// bases (already validated by checkAnnotations)
		base := make([]int, len(p.Refs))
		for j, rf := range p.Refs {
			base[j] = -1
			if c.filteredOut(rf) || h.Children[rf.Child].Missing {
				continue
			}
			if b, ok := c.observedBase(i, j, refs[j]); ok {
				base[j] = b
			}
		}
		upsBefore := eq.Dump(ups)
		for _, t := range ts {
			c.st.Times++
			var after []obsRef
			var afterOri []int
			var err error
			if h.Way {
				var w *osm.Way
				if userStyle := c.st.Times%2 == 0; userStyle {
					// the way a caller answers "state at t": a value copy with its own child list; the
					// update list is shared with the annotated parent
					cp := *c.run.Ways[i]
					cp.Nodes = append(osm.WayNodes(nil), cp.Nodes...)
					w = &cp
				} else {
					w = eq.Clone(c.run.Ways[i])
				}
				err = w.ApplyUpdatesUpTo(c.h.At(t))
				after = obsOfWay(w)
			} else {
				var rl *osm.Relation
				if userStyle := c.st.Times%2 == 0; userStyle {
					cp := *c.run.Relations[i]
					cp.Members = append(osm.Members(nil), cp.Members...)
					rl = &cp
				} else {
					rl = eq.Clone(c.run.Relations[i])
				}
				err = rl.ApplyUpdatesUpTo(c.h.At(t))
				after = obsOfRel(rl)
				for _, mb := range rl.Members {
					afterOri = append(afterOri, int(mb.Orientation))
				}
			}
			if err != nil {
				c.add("timetravel", "apply-error", "parent version %d: ApplyUpdatesUpTo(%d) failed: %v", p.Version, t, err)
				break
			}
			bad := false
			for j, rf := range p.Refs {
				b := base[j]
				if b < 0 {
					continue
				}
				x := rf.Child
				vs := c.m.vers(x)
				want := b
				if k := c.m.Cur(x, t); k > want {
					want = k
				}
				consistent := true
				for k := b + 1; k <= want; k++ {
					if !vs[k].Visible {
						consistent = false
					}
				}
				if !consistent {
					continue
				}
				c.st.States++
				if afterOri != nil && h.Children[x].Type == osm.TypeWay {
					// the orientation follows every direction change between the base and the version in effect
					exp := int(c.run.Relations[i].Members[j].Orientation)
					for k := b + 1; k <= want; k++ {
						if rv, _ := c.m.ExpectedReverse(x, k); rv {
							exp = -exp
						}
					}
					c.st.OrientationStates++
					if afterOri[j] != exp {
						c.add("timetravel-orientation", c.spot(i, x, len(ups)), "parent version %d, updates applied up to t=%d: member %d (%v) has orientation %d, expected %d (annotated %d, base v%d, version in effect v%d)",
							p.Version, t, j, h.Children[x].FID(), afterOri[j], exp, c.run.Relations[i].Members[j].Orientation, vs[b].Version, vs[want].Version)
						bad = true
						break
					}
				}
				if !matches(&h.Children[x], vs[want], after[j]) {
					c.add("timetravel", c.spot(i, x, len(ups)), "parent version %d (t=%d), updates applied up to t=%d: index %d (%v) is at version %d, the version in effect is %d (base v%d)", p.Version, p.Sec, t, j, h.Children[x].FID(), after[j].Version, vs[want].Version, vs[b].Version)
					bad = true
					break
				}
			}
			if bad {
				break
			}
		}
		// queries on copies must leave the annotated parent's own update list as it was, or the
		// next query against the same annotated parent sees another list
		if _, now := c.obs(i); eq.Dump(now) != upsBefore {
			c.st.Times++
			c.add("updates-clobbered-by-query", "shared-update-list", "parent version %d: after ApplyUpdatesUpTo on value copies (own child list, shared update list) the annotated parent's update list changed: %s; now: %s",
				p.Version, eq.Diff(upsBefore, eq.Dump(now)), UpdatesText(now))
		}
	}
}

// OrderFinding describes a violation of the (index, time, version) order of an update list.
func OrderFinding(us osm.Updates) string {
	for k := 1; k < len(us); k++ {
		a, b := us[k-1], us[k]
		switch {
		case b.Index < a.Index:
			return fmt.Sprintf("index decreases at position %d (%d after %d)", k, b.Index, a.Index)
		case b.Index > a.Index:
		case b.Timestamp.Before(a.Timestamp):
			return fmt.Sprintf("time decreases within index %d at position %d", b.Index, k)
		case b.Timestamp.Equal(a.Timestamp) && b.Version < a.Version:
			return fmt.Sprintf("version decreases within index %d at one timestamp, position %d (v%d after v%d)", b.Index, k, b.Version, a.Version)
		}
	}
	return ""
}

// UpdatesText renders an update list compactly as index:version@time.
func UpdatesText(us osm.Updates) string {
	var sb strings.Builder
	for k, u := range us {
		if k > 0 {
			sb.WriteByte(' ')
		}
		fmt.Fprintf(&sb, "%d:v%d@%d", u.Index, u.Version, u.Timestamp.Unix())
		if ns := u.Timestamp.Nanosecond(); ns != 0 {
			fmt.Fprintf(&sb, ".%09d", ns)
		}
	}
	return sb.String()
}
