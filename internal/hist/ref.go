package hist

// Reference model of annotation, written from the documented behaviour (package docs of
// annotate, the doc comment of the visible-child search, the property statement), not from
// the implementation.
//
// Commit regime: cur(x,t) = latest version of x committed at or before t. The base child of
// parent version P_i at an index holding x is cur(x,T_i); it must exist and be visible.
//
// (A Span history crosses osm.CommitInfoStart: elements before the boundary carry no commit
// time and follow the stamp rules, elements after it the commit rules; the regime is a
// property of each parent version / child version, not of the history.)
//
// Stamp regime with threshold E: the base child is the visible version nearest to T inside
// [T-E, T+E], where versions after T count only when they carry the parent's changeset
// (forward grouping), ties going to the later version; with no candidate in the window it is
// the latest version before the window, if visible. This rule is only taken as exact for a
// child whose windows are all "well separated" (every version inside a window visible; the
// window holds only edits at-or-before T, or only forward-grouped edits, or only
// foreign-changeset edits after T). For any other child the model only gives the set of
// acceptable bases (permissive oracle).
//
// Updates of P_i at an index holding x with base b: every visible version after b that took
// effect before lim = T_{i+1} (commit) / T_{i+1}-E (stamp) is required; versions after b and
// before the next parent's base that fall on or after lim are optional (the statement does
// not say whether "up to the next parent version" includes that instant); nothing else is
// allowed. For the last parent version every later visible version is required.

// Model evaluates the reference for one history.
type Model struct {
	H      *H
	E      int64 // threshold in model ticks that applies at instants without commit information
	strict []bool
}

// Pre reports whether an element stamped t carries no commit time (timestamp regime): always in
// a Stamp history, before the boundary MixSec in a Span history, never in a Commit history.
func (m *Model) Pre(t int64) bool {
	return m.H.Regime == Stamp || (m.H.Span && t < m.H.MixSec)
}

// eAt is the grouping threshold that applies to a parent version stamped T.
func (m *Model) eAt(T int64) int64 {
	if m.Pre(T) {
		return m.E
	}
	return 0
}

// NewModel prepares the reference model of h.
func NewModel(h *H) *Model {
	m := &Model{H: h}
	if h.Regime == Stamp || h.Span {
		m.E = h.Eps * h.TPS()
		if h.EpsDefault {
			m.E = 1800 * h.TPS()
		}
	}
	m.strict = make([]bool, len(h.Children))
	for c := range h.Children {
		m.strict[c] = true
		for _, p := range h.Parents {
			if m.Pre(p.Sec) && !m.wellSeparated(c, p.Sec, p.CS) {
				m.strict[c] = false
			}
		}
	}
	return m
}

// Strict reports whether child c is checked against the exact reference.
func (m *Model) Strict(c int) bool { return m.strict[c] }

// Lim is the instant before which a later child version belongs to parent version i
// (ok=false for the last parent version).
func (m *Model) Lim(i int) (lim int64, ok bool) {
	if i+1 >= len(m.H.Parents) {
		return 0, false
	}
	return m.H.Parents[i+1].Sec - m.eAt(m.H.Parents[i+1].Sec), true
}

func (m *Model) vers(c int) []Ver {
	ch := &m.H.Children[c]
	if ch.Empty || ch.Missing {
		return nil
	}
	return ch.Vers
}

// Cur is the index of the latest version of child c in effect at t (-1: none).
func (m *Model) Cur(c int, t int64) int {
	k := -1
	for i, v := range m.vers(c) {
		if v.Sec <= t {
			k = i
		}
	}
	return k
}

func (m *Model) latestBefore(c int, t int64) int {
	k := -1
	for i, v := range m.vers(c) {
		if v.Sec < t {
			k = i
		}
	}
	return k
}

func (m *Model) window(c int, T int64) []int {
	var w []int
	for i, v := range m.vers(c) {
		if v.Sec >= T-m.eAt(T) && v.Sec <= T+m.eAt(T) {
			w = append(w, i)
		}
	}
	return w
}

// windowClass classifies a window: "empty", "le" (all at or before T), "fwd" (all after T
// with the parent's changeset), "foreign" (all after T with other changesets), "mix" (a
// mixture of those, all visible), "" (a deleted version inside).
func (m *Model) windowClass(c int, T, cs int64) string {
	w := m.window(c, T)
	if len(w) == 0 {
		return "empty"
	}
	vs := m.vers(c)
	le, fwd, foreign := 0, 0, 0
	for _, k := range w {
		v := vs[k]
		if !v.Visible {
			return ""
		}
		switch {
		case v.Sec <= T:
			le++
		case v.CS == cs:
			fwd++
		default:
			foreign++
		}
	}
	switch len(w) {
	case le:
		return "le"
	case fwd:
		return "fwd"
	case foreign:
		return "foreign"
	}
	return "mix"
}

func (m *Model) wellSeparated(c int, T, cs int64) bool { return m.windowClass(c, T, cs) != "" }

// BaseExp is what the reference says about the base child of one (parent version, child).
type BaseExp struct {
	Accept []int // acceptable version indexes (exactly one, or none, for a strict child)
	NilOK  bool  // "no visible child" is an acceptable answer
}

// Has reports whether version index k is acceptable.
func (b BaseExp) Has(k int) bool {
	for _, a := range b.Accept {
		if a == k {
			return true
		}
	}
	return false
}

// Base evaluates the reference for child c at parent version i.
func (m *Model) Base(c, i int) BaseExp {
	p := m.H.Parents[i]
	return m.baseAt(c, p.Sec, p.CS)
}

func (m *Model) baseAt(c int, T, cs int64) BaseExp {
	vs := m.vers(c)
	if !m.Pre(T) {
		k := m.Cur(c, T)
		if k >= 0 && vs[k].Visible {
			return BaseExp{Accept: []int{k}}
		}
		return BaseExp{NilOK: true}
	}
	bf := m.latestBefore(c, T-m.eAt(T))
	prev := func() BaseExp {
		if bf >= 0 && vs[bf].Visible {
			return BaseExp{Accept: []int{bf}}
		}
		return BaseExp{NilOK: true}
	}
	w := m.window(c, T)
	if m.strict[c] {
		// every version inside the window is visible: the documented rule decides. Candidates are
		// the in-window versions at or before T and the later ones of the parent's changeset; the
		// one nearest to T wins, among equally near ones the later version; without a candidate
		// the latest version before the window, if visible.
		best := -1
		dist := func(k int) int64 {
			d := vs[k].Sec - T
			if d < 0 {
				d = -d
			}
			return d
		}
		for _, k := range w {
			if vs[k].Sec > T && vs[k].CS != cs {
				continue
			}
			if best < 0 || dist(k) <= dist(best) {
				best = k
			}
		}
		if best < 0 {
			return prev()
		}
		return BaseExp{Accept: []int{best}}
	}
	// permissive: the version in effect at T when it is visible; when it is deleted or absent
	// anything defensible; plus every forward-grouped version.
	var out BaseExp
	L := m.Cur(c, T)
	if L >= 0 && vs[L].Visible {
		out.Accept = append(out.Accept, L)
	} else {
		out.NilOK = true
		if bf >= 0 && vs[bf].Visible {
			out.Accept = append(out.Accept, bf)
		}
		for _, k := range w {
			if vs[k].Visible && vs[k].Sec <= T {
				out.Accept = append(out.Accept, k)
			}
		}
	}
	for _, k := range w {
		if vs[k].Visible && vs[k].Sec > T && vs[k].CS == cs {
			out.Accept = append(out.Accept, k)
		}
	}
	return out
}

// NextUnknown says that the base of the child at the next parent version was not observed.
const NextUnknown = -2

// UpdExp is what the reference says about the updates of one (parent version, index).
type UpdExp struct {
	Required    map[int]bool
	Optional    map[int]bool
	DelCertain  bool // a deleted version lies in the required range
	DelPossible bool // a deleted version lies in the required or optional range
}

// Updates evaluates the reference for child c at parent version i whose base is version
// index b (-1: none). nbObs is the observed base of the child at the next parent version
// (NextUnknown, -1 for none, or an index); it is only used for permissive children.
func (m *Model) Updates(c, i, b, nbObs int) UpdExp {
	out := UpdExp{Required: map[int]bool{}, Optional: map[int]bool{}}
	vs := m.vers(c)
	T := m.H.Parents[i].Sec
	lim, hasNext := m.Lim(i)
	var Tn int64
	nb := nbObs
	if hasNext {
		Tn = m.H.Parents[i+1].Sec
		if m.strict[c] {
			be := m.baseAt(c, Tn, m.H.Parents[i+1].CS)
			nb = -1
			if len(be.Accept) == 1 {
				nb = be.Accept[0]
			}
		}
	}
	for k, v := range vs {
		if b < 0 {
			// no base (only possible with IgnoreInconsistency): nothing is required, later
			// real versions around [T_i, T_{i+1}) are tolerated
			if v.Sec >= T-m.eAt(T) && (!hasNext || v.Sec <= Tn+m.eAt(Tn)) && v.Visible {
				out.Optional[k] = true
			}
			continue
		}
		if k <= b {
			continue
		}
		switch {
		case !hasNext || v.Sec < lim:
			if v.Visible {
				out.Required[k] = true
			} else {
				out.DelCertain, out.DelPossible = true, true
			}
		case nb >= 0 && k < nb,
			nb == NextUnknown && v.Sec <= Tn+m.eAt(Tn):
			if v.Visible {
				out.Optional[k] = true
			} else {
				out.DelPossible = true
			}
		}
	}
	return out
}

// ExpectedReverse is the reference for Update.Reverse of version index k of way child c: the
// way is traversed in the opposite direction to its previous version. It is only defined
// (ok) when this and the previous version are both visible (both have nodes). Open ways:
// reversed iff the two versions have the same pair of end nodes in swapped positions (the
// library documents "just check the endpoints"); closed rings: iff the winding changes.
// Computed from the model's own bookkeeping (Rev, Alt), not from coordinates.
func (m *Model) ExpectedReverse(c, k int) (rev bool, ok bool) {
	ch := &m.H.Children[c]
	vs := m.vers(c)
	if ch.Type != "way" || k <= 0 || k >= len(vs) || !vs[k].Visible || !vs[k-1].Visible {
		return false, false
	}
	cur, prev := vs[k], vs[k-1]
	if ch.Closed {
		return cur.Rev != prev.Rev, true
	}
	endsOf := func(v Ver) int {
		if (v.Alt == 2 || v.Alt == 3) && !m.H.Ring {
			return v.Alt
		}
		return 0
	}
	return endsOf(cur) == endsOf(prev) && cur.Rev != prev.Rev, true
}
