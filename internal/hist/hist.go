// Package hist holds the edit-history model used by the annotation checks (C11, C12): a
// compact, JSON-able description of the versions of one parent (way or relation) and of its
// children, a seeded generator for such histories, a builder that turns a history into the
// library's input values plus a recording datasource, and an independent reference model
// (ref.go) written from the documented behaviour of package annotate.
package hist

import (
	"context"
	"errors"
	"fmt"
	"math"
	"sort"
	"strings"
	"sync"
	"time"

	"github.com/paulmach/osm"
	"github.com/paulmach/osm/annotate"
	"github.com/paulmach/osm/annotate/shared"

	"verif/internal/gen"
)

// Regime says which clock decides "current at": the commit time (all elements carry a
// Committed time on or after osm.CommitInfoStart) or the element timestamp with a grouping
// threshold (no element carries a Committed time).
type Regime int

// The two regimes. A history is never mixed (Mixed histories are only run, not checked).
const (
	Commit Regime = iota
	Stamp
)

func (r Regime) String() string {
	if r == Commit {
		return "commit"
	}
	return "stamp"
}

// Ver is one version of a child element.
type Ver struct {
	Version int     `json:"v"`
	Visible bool    `json:"vis"`
	Sec     int64   `json:"t"`             // effective time (unix s): commit time in the Commit regime, timestamp otherwise
	Lag     int64   `json:"lag,omitempty"` // Commit regime only: Timestamp = Sec - Lag
	CS      int64   `json:"cs"`
	Lat     float64 `json:"lat,omitempty"`
	Lon     float64 `json:"lon,omitempty"`
	Rev     bool    `json:"rev,omitempty"` // way child: node list reversed with respect to the canonical one
	Zone    int     `json:"z,omitempty"`   // index into Zones: the Location the times of this version are expressed in
	// Alt (way child): 0 canonical nodes; 1 an inner node replaced (open way: ends kept; ring:
	// one vertex replaced, winding kept); 2 open way: other end nodes; ring: starts at another
	// vertex (winding kept); 3 open way: only the last end node is another one.
	Alt int `json:"alt,omitempty"`
}

// Child is the whole history of one child element.
type Child struct {
	Type    osm.Type `json:"type"`
	Ref     int64    `json:"ref"`
	Vers    []Ver    `json:"vers"`
	Missing bool     `json:"missing,omitempty"` // the datasource reports "not found"
	Empty   bool     `json:"empty,omitempty"`   // the datasource returns an empty history and a nil error
	Fail    bool     `json:"fail,omitempty"`    // the datasource fails with an error that is not "not found"
	Closed  bool     `json:"closed,omitempty"`  // way child: a closed ring (first node == last node)
	// NoCommit: in a mixed-regime history this child's versions before MixSec have no Committed time.
}

// FID is the feature id of the child.
func (c *Child) FID() osm.FeatureID {
	switch c.Type {
	case osm.TypeNode:
		return osm.NodeID(c.Ref).FeatureID()
	case osm.TypeWay:
		return osm.WayID(c.Ref).FeatureID()
	}
	return osm.RelationID(c.Ref).FeatureID()
}

// Ref is one child reference of a parent version.
type Ref struct {
	Child int    `json:"c"`
	Role  string `json:"role,omitempty"`
	Pre   bool   `json:"pre,omitempty"` // the input reference already carries a (bogus) annotation
	// Loc: the input reference carries a location but no version / changeset (ways read with
	// locations on way nodes, partly pre-annotated input): it is NOT annotated, so a ChildFilter
	// must not keep it from being annotated. Exclusive with Pre.
	Loc bool `json:"loc,omitempty"`
}

// PVer is one version of the parent.
type PVer struct {
	Version int   `json:"v"`
	Visible bool  `json:"vis"`
	Sec     int64 `json:"t"`
	Lag     int64 `json:"lag,omitempty"`
	CS      int64 `json:"cs"`
	Refs    []Ref `json:"refs"`
	Zone    int   `json:"z,omitempty"`
}

// H is one history: the input of one annotate.Ways / annotate.Relations call.
type H struct {
	Way        bool   `json:"way"` // parent is a way over nodes; otherwise a relation
	Regime     Regime `json:"regime"`
	Eps        int64  `json:"eps_s"`                 // threshold in seconds
	EpsDefault bool   `json:"eps_default,omitempty"` // no Threshold option is passed (default 30 min)
	Mixed      bool   `json:"mixed,omitempty"`       // versions before MixSec carry no commit time (run only)
	MixSec     int64  `json:"mix_s,omitempty"`
	// Span: the history crosses osm.CommitInfoStart at MixSec (= that instant): parent and child
	// versions before it carry no commit time (timestamp regime, threshold Eps), those at or
	// after it do. Unlike Mixed histories these are checked.
	Span          bool    `json:"span,omitempty"`
	Polygon       bool    `json:"polygon,omitempty"`  // relation tagged type=multipolygon
	Boundary      bool    `json:"boundary,omitempty"` // with Polygon: tagged type=boundary instead
	Ring          bool    `json:"ring,omitempty"`     // way children are consecutive arcs of one closed ring
	Children      []Child `json:"children"`
	Parents       []PVer  `json:"parents"`
	IgnoreInc     bool    `json:"ignore_inconsistency,omitempty"`
	IgnoreMissing bool    `json:"ignore_missing,omitempty"`
	Filter        []bool  `json:"filter,omitempty"` // per child: accepted by the ChildFilter; nil = no filter option
	Shuffle       uint64  `json:"shuffle,omitempty"`
	// Stale > 0: every input parent version already carries that many stale updates (left over
	// from an earlier annotation against another history / other options). What the input
	// carried never changes what annotation has to produce.
	Stale int `json:"stale,omitempty"`
	// TickNs is the unit of every time value of the model (Sec, Lag, MixSec) in nanoseconds:
	// 0 or 1e9 = whole seconds, 1e6 = milliseconds, 1 = nanoseconds (sub-second instants).
	TickNs int64 `json:"tick_ns,omitempty"`
}

// TPS is the number of model ticks per second.
func (h *H) TPS() int64 {
	if h.TickNs <= 0 || h.TickNs >= 1e9 {
		return 1
	}
	return 1e9 / h.TickNs
}

// At converts a model time to the instant (UTC).
func (h *H) At(tick int64) time.Time { return h.atz(tick, 0) }

// Tick converts an instant produced from this history back to model time.
func (h *H) Tick(t time.Time) int64 {
	tps := h.TPS()
	return t.Unix()*tps + int64(t.Nanosecond())/(1e9/tps)
}

func (h *H) atz(tick int64, z int) time.Time {
	tps := h.TPS()
	sec, frac := tick/tps, tick%tps
	if frac < 0 {
		sec, frac = sec-1, frac+tps
	}
	t := time.Unix(sec, frac*(1e9/tps))
	if z <= 0 {
		return t.UTC()
	}
	return t.In(Zones[z%len(Zones)])
}

// Bogus pre-annotation: values no real version of a generated child can have.
const (
	PreVersion   = 9000
	PreChangeset = 7777
	PreLat       = 88.5
	PreLon       = -177.5
)

// Zones are the Locations in which generated times are expressed. The instant is what
// counts; the same instant in two Locations gives two time.Time values that differ as
// structs (== is false) but are Equal. Index 0 is UTC. The list holds fixed zones east and
// west with odd minutes, two Locations with the same offset but different names, and a
// Location with offset zero that is not time.UTC.
var Zones = []*time.Location{
	time.UTC,
	time.FixedZone("", 2*3600),
	time.FixedZone("CEST", 2*3600),
	time.FixedZone("", -(5*3600 + 30*60)),
	time.FixedZone("Z0", 0),
	time.FixedZone("", 9*3600+45*60),
	time.Local,
}

// stamps gives the timestamp and commit time of a version: the timestamp and the commit
// time of one version use neighbouring zones, so that they differ as structs as well.
func (h *H) stamps(sec, lag int64, z int) (ts time.Time, committed *time.Time) {
	if h.Regime == Commit {
		if (h.Mixed || h.Span) && sec < h.MixSec {
			return h.atz(sec, z), nil
		}
		c := h.atz(sec, z)
		t := sec - lag
		if min := h.Tick(osm.CommitInfoStart); t < min && !h.Mixed {
			t = min
		}
		zt := z
		if z > 0 {
			zt = z + 1
		}
		return h.atz(t, zt), &c
	}
	return h.atz(sec, z), nil
}

func preVersion(j int) int { return PreVersion + j }

// BuildWays returns a fresh input for annotate.Ways.
func (h *H) BuildWays() osm.Ways {
	ws := make(osm.Ways, 0, len(h.Parents))
	for _, p := range h.Parents {
		ts, com := h.stamps(p.Sec, p.Lag, p.Zone)
		w := &osm.Way{ID: 4242, Version: p.Version, Visible: p.Visible, Timestamp: ts, Committed: com,
			ChangesetID: osm.ChangesetID(p.CS), User: "u", UserID: 5, Tags: osm.Tags{{Key: "highway", Value: "path"}}}
		for j, r := range p.Refs {
			wn := osm.WayNode{ID: osm.NodeID(h.Children[r.Child].Ref)}
			if r.Pre {
				wn.Version, wn.ChangesetID, wn.Lat, wn.Lon = preVersion(j), PreChangeset, PreLat, PreLon
			} else if r.Loc {
				wn.Lat, wn.Lon = PreLat, PreLon
			}
			w.Nodes = append(w.Nodes, wn)
		}
		w.Updates = h.staleUpdates(p, len(p.Refs))
		ws = append(ws, w)
	}
	return ws
}

// staleUpdates are the left-over updates an already annotated input carries.
func (h *H) staleUpdates(p PVer, nrefs int) osm.Updates {
	if h.Stale <= 0 {
		return nil
	}
	var us osm.Updates
	for k := 0; k < h.Stale; k++ {
		idx := 0
		if nrefs > 0 {
			idx = (k*7 + p.Version) % nrefs
		}
		us = append(us, osm.Update{Index: idx, Version: PreVersion + 500 + k, Timestamp: h.At(p.Sec + int64(k+1)*977*h.TPS()),
			ChangesetID: PreChangeset + 1, Lat: PreLat - 1, Lon: PreLon + 1, Reverse: k%2 == 1})
	}
	return us
}

// BuildRelations returns a fresh input for annotate.Relations.
func (h *H) BuildRelations() osm.Relations {
	rs := make(osm.Relations, 0, len(h.Parents))
	for _, p := range h.Parents {
		ts, com := h.stamps(p.Sec, p.Lag, p.Zone)
		r := &osm.Relation{ID: 4343, Version: p.Version, Visible: p.Visible, Timestamp: ts, Committed: com,
			ChangesetID: osm.ChangesetID(p.CS), User: "u", UserID: 5, Tags: osm.Tags{{Key: "name", Value: "x"}}}
		if h.Polygon {
			if h.Boundary {
				r.Tags = append(r.Tags, osm.Tag{Key: "type", Value: "boundary"})
			} else {
				r.Tags = append(r.Tags, osm.Tag{Key: "type", Value: "multipolygon"})
			}
		}
		for j, rf := range p.Refs {
			c := &h.Children[rf.Child]
			m := osm.Member{Type: c.Type, Ref: c.Ref, Role: rf.Role}
			if rf.Pre {
				m.Version, m.ChangesetID, m.Lat, m.Lon = preVersion(j), PreChangeset, PreLat, PreLon
			} else if rf.Loc {
				m.Lat, m.Lon = PreLat, PreLon
			}
			r.Members = append(r.Members, m)
		}
		r.Updates = h.staleUpdates(p, len(p.Refs))
		rs = append(rs, r)
	}
	return rs
}

// Options returns the annotate options of the history (the filter observes its calls).
func (h *H) Options() []annotate.Option { return h.OptionsShared(nil) }

// SharedFilter is one ChildFilter option VALUE that is built once and then reused for many
// calls: before each call Use points it at the verdicts of the history about to be annotated
// (the documented use of the filter: "children updated in the same batch" - the batch, and
// with it the verdict for a child, changes from call to call).
type SharedFilter struct {
	Opt annotate.Option
	acc map[osm.FeatureID]bool
}

// NewSharedFilter builds the option value once.
func NewSharedFilter() *SharedFilter {
	sf := &SharedFilter{}
	sf.Opt = annotate.ChildFilter(func(id osm.FeatureID) bool { return sf.acc[id] })
	return sf
}

func (h *H) accepted() map[osm.FeatureID]bool {
	acc := map[osm.FeatureID]bool{}
	for i := range h.Children {
		if h.Filter[i] {
			acc[h.Children[i].FID()] = true
		}
	}
	return acc
}

// OptionsShared is Options; when the history has a filter and sf is not nil, the reused
// option value sf is passed instead of a freshly built ChildFilter option.
func (h *H) OptionsShared(sf *SharedFilter) []annotate.Option {
	var o []annotate.Option
	if !h.EpsDefault {
		o = append(o, annotate.Threshold(time.Duration(h.Eps)*time.Second))
	}
	if h.IgnoreInc {
		o = append(o, annotate.IgnoreInconsistency(true))
	}
	if h.IgnoreMissing {
		o = append(o, annotate.IgnoreMissingChildren(true))
	}
	if h.Filter != nil {
		if sf != nil {
			sf.acc = h.accepted()
			o = append(o, sf.Opt)
		} else {
			acc := h.accepted()
			o = append(o, annotate.ChildFilter(func(id osm.FeatureID) bool { return acc[id] }))
		}
	}
	return o
}

// EpsDur is the effective threshold.
func (h *H) EpsDur() time.Duration { return time.Duration(h.Eps) * time.Second }

// ---------------------------------------------------------------------------------------
// datasource

// ErrNotFound is what the recording datasource returns for a missing history.
var ErrNotFound = errors.New("hist: no such element")

// ErrBroken is the injected datasource failure that is not a "not found".
var ErrBroken = errors.New("hist: datasource failure")

// DS is a recording history datasource over one history. Every call builds fresh values, so
// nothing the library does to what it gets can leak into another run.
type DS struct {
	h     *H
	byFID map[osm.FeatureID]int
	mu    sync.Mutex
	Calls []string // feature ids in the order their histories were requested
}

var _ osm.HistoryDatasourcer = &DS{}
var _ annotate.NodeHistoryDatasourcer = &DS{}

// Datasource returns a new recording datasource for the history.
func (h *H) Datasource() *DS {
	d := &DS{h: h, byFID: map[osm.FeatureID]int{}}
	for i := range h.Children {
		d.byFID[h.Children[i].FID()] = i
	}
	return d
}

// Order is the recorded call order as one string.
func (d *DS) Order() string {
	d.mu.Lock()
	defer d.mu.Unlock()
	return strings.Join(d.Calls, ",")
}

func (d *DS) lookup(fid osm.FeatureID) (*Child, []int, error) {
	d.mu.Lock()
	d.Calls = append(d.Calls, fid.String())
	d.mu.Unlock()
	i, ok := d.byFID[fid]
	if !ok || d.h.Children[i].Missing {
		return nil, nil, ErrNotFound
	}
	c := &d.h.Children[i]
	if c.Fail {
		return nil, nil, ErrBroken
	}
	if c.Empty {
		return c, nil, nil
	}
	order := make([]int, len(c.Vers))
	for k := range order {
		order[k] = k
	}
	if d.h.Shuffle != 0 {
		r := gen.New(d.h.Shuffle, "shuffle"+fid.String())
		r.Shuffle(len(order), func(a, b int) { order[a], order[b] = order[b], order[a] })
	}
	return c, order, nil
}

// NodeHistory implements the datasource interface.
func (d *DS) NodeHistory(_ context.Context, id osm.NodeID) (osm.Nodes, error) {
	c, order, err := d.lookup(id.FeatureID())
	if err != nil {
		return nil, err
	}
	out := osm.Nodes{}
	for _, k := range order {
		v := c.Vers[k]
		ts, com := d.h.stamps(v.Sec, v.Lag, v.Zone)
		out = append(out, &osm.Node{ID: id, Version: v.Version, Visible: v.Visible, Timestamp: ts, Committed: com,
			ChangesetID: osm.ChangesetID(v.CS), Lat: v.Lat, Lon: v.Lon, User: "n", UserID: 9})
	}
	return out, nil
}

// WayHistory implements the datasource interface.
func (d *DS) WayHistory(_ context.Context, id osm.WayID) (osm.Ways, error) {
	c, order, err := d.lookup(id.FeatureID())
	if err != nil {
		return nil, err
	}
	out := osm.Ways{}
	for _, k := range order {
		v := c.Vers[k]
		ts, com := d.h.stamps(v.Sec, v.Lag, v.Zone)
		w := &osm.Way{ID: id, Version: v.Version, Visible: v.Visible, Timestamp: ts, Committed: com,
			ChangesetID: osm.ChangesetID(v.CS), User: "w", UserID: 9}
		pts := d.h.wayNodes(c, v)
		if v.Visible {
			w.Nodes = pts
		}
		out = append(out, w)
	}
	return out, nil
}

// wayNodes builds the located node list of one version of a way child. Open ways are a
// three-node line (Rev: traversed the other way round; Alt 1: other middle node; Alt 2: other
// end nodes); closed ways a four-vertex ring (Rev: opposite winding; Alt 1: one vertex
// replaced; Alt 2: starts at another vertex). In Ring histories the open ways are arcs of one
// polygon (Alt ignored).
func (h *H) wayNodes(c *Child, v Ver) []osm.WayNode {
	id := c.Ref
	base := float64(id%50) / 10
	var pts []osm.WayNode
	switch {
	case h.Ring && !c.Closed:
		pts = h.ringArc(c)
	case c.Closed:
		pts = []osm.WayNode{
			{ID: osm.NodeID(id*10 + 1), Version: 1, Lat: base, Lon: base},
			{ID: osm.NodeID(id*10 + 2), Version: 1, Lat: base, Lon: base + 1},
			{ID: osm.NodeID(id*10 + 3), Version: 1, Lat: base + 1, Lon: base + 1},
			{ID: osm.NodeID(id*10 + 4), Version: 1, Lat: base + 1, Lon: base},
		}
		switch v.Alt {
		case 1:
			pts[2] = osm.WayNode{ID: osm.NodeID(id*10 + 7), Version: 2, Lat: base + 1.25, Lon: base + 1.5}
		case 2:
			pts = append(pts[1:], pts[0])
		}
		pts = append(pts, pts[0])
	default:
		pts = []osm.WayNode{
			{ID: osm.NodeID(id*10 + 1), Version: 1, Lat: base, Lon: base},
			{ID: osm.NodeID(id*10 + 2), Version: 1, Lat: base + 0.5, Lon: base + 0.25},
			{ID: osm.NodeID(id*10 + 3), Version: 1, Lat: base + 1, Lon: base},
		}
		switch v.Alt {
		case 1:
			pts[1] = osm.WayNode{ID: osm.NodeID(id*10 + 7), Version: 3, Lat: base + 0.5, Lon: base - 0.25}
		case 2:
			pts[0] = osm.WayNode{ID: osm.NodeID(id*10 + 8), Version: 1, Lat: base - 0.5, Lon: base}
			pts[2] = osm.WayNode{ID: osm.NodeID(id*10 + 9), Version: 1, Lat: base + 1.5, Lon: base}
		case 3:
			pts[2] = osm.WayNode{ID: osm.NodeID(id*10 + 9), Version: 1, Lat: base + 1.5, Lon: base}
		}
	}
	if v.Rev {
		for a, b := 0, len(pts)-1; a < b; a, b = a+1, b-1 {
			pts[a], pts[b] = pts[b], pts[a]
		}
	}
	return pts
}

// ringArc gives way child c its arc of a closed ring: the way children of the history, in
// child order, are the consecutive sides of a regular polygon (shared end nodes, one located
// node in between), so that they join into one ring.
func (h *H) ringArc(c *Child) []osm.WayNode {
	var m, j int
	for i := range h.Children {
		if h.Children[i].Type == osm.TypeWay {
			if &h.Children[i] == c {
				j = m
			}
			m++
		}
	}
	if m < 3 {
		m = 3
	}
	pt := func(k float64, id int64) osm.WayNode {
		a := 2 * math.Pi * k / float64(m)
		return osm.WayNode{ID: osm.NodeID(id), Version: 1, Lat: 10 + math.Round(math.Sin(a)*1e6)/1e6, Lon: 20 + math.Round(math.Cos(a)*1e6)/1e6}
	}
	return []osm.WayNode{pt(float64(j), int64(7000+j)), pt(float64(j)+0.5, int64(7500+j)), pt(float64(j+1), int64(7000+(j+1)%m))}
}

// RelationHistory implements the datasource interface.
func (d *DS) RelationHistory(_ context.Context, id osm.RelationID) (osm.Relations, error) {
	c, order, err := d.lookup(id.FeatureID())
	if err != nil {
		return nil, err
	}
	out := osm.Relations{}
	for _, k := range order {
		v := c.Vers[k]
		ts, com := d.h.stamps(v.Sec, v.Lag, v.Zone)
		out = append(out, &osm.Relation{ID: id, Version: v.Version, Visible: v.Visible, Timestamp: ts, Committed: com,
			ChangesetID: osm.ChangesetID(v.CS), User: "r", UserID: 9})
	}
	return out, nil
}

// DSC is the recording datasource in its "children" configuration: besides the plain history
// methods it implements annotate.NodeHistoryAsChildrenDatasourcer and
// annotate.HistoryAsChildrenDatasourcer, handing the library ready-made children built with
// the exported constructors (shared.FromNode/FromWay/FromRelation), sorted by version, with
// VersionIndex = position and, for ways, ReverseOfPrevious = annotate.IsReverse(way, previous).
type DSC struct{ *DS }

var _ annotate.HistoryAsChildrenDatasourcer = &DSC{}
var _ annotate.NodeHistoryAsChildrenDatasourcer = &DSC{}

// NodeHistoryAsChildren implements the children datasource interface.
func (d *DSC) NodeHistoryAsChildren(ctx context.Context, id osm.NodeID) ([]*shared.Child, error) {
	ns, err := d.NodeHistory(ctx, id)
	if err != nil {
		return nil, err
	}
	sort.Slice(ns, func(a, b int) bool { return ns[a].Version < ns[b].Version })
	out := make([]*shared.Child, len(ns))
	for i, n := range ns {
		out[i] = shared.FromNode(n)
		out[i].VersionIndex = i
	}
	return out, nil
}

// WayHistoryAsChildren implements the children datasource interface.
func (d *DSC) WayHistoryAsChildren(ctx context.Context, id osm.WayID) ([]*shared.Child, error) {
	ws, err := d.WayHistory(ctx, id)
	if err != nil {
		return nil, err
	}
	sort.Slice(ws, func(a, b int) bool { return ws[a].Version < ws[b].Version })
	out := make([]*shared.Child, len(ws))
	for i, w := range ws {
		out[i] = shared.FromWay(w)
		out[i].VersionIndex = i
		if i > 0 {
			out[i].ReverseOfPrevious = annotate.IsReverse(w, ws[i-1])
		}
	}
	return out, nil
}

// RelationHistoryAsChildren implements the children datasource interface.
func (d *DSC) RelationHistoryAsChildren(ctx context.Context, id osm.RelationID) ([]*shared.Child, error) {
	rs, err := d.RelationHistory(ctx, id)
	if err != nil {
		return nil, err
	}
	sort.Slice(rs, func(a, b int) bool { return rs[a].Version < rs[b].Version })
	out := make([]*shared.Child, len(rs))
	for i, r := range rs {
		out[i] = shared.FromRelation(r)
		out[i].VersionIndex = i
	}
	return out, nil
}

// NotFound implements the datasource interface.
func (d *DS) NotFound(err error) bool { return errors.Is(err, ErrNotFound) }

// ---------------------------------------------------------------------------------------
// running the library

// Run is one execution of the library on a fresh copy of the history's input.
type Run struct {
	Ways      osm.Ways
	Relations osm.Relations
	Err       error
	Panic     string
	Order     string // order of datasource history calls
	NCalls    int
}

// Execute builds a fresh input and calls annotate.Ways or annotate.Relations on it.
func (h *H) Execute() *Run {
	if h.Way {
		return h.ExecuteOn(h.BuildWays(), nil)
	}
	return h.ExecuteOn(nil, h.BuildRelations())
}

// ExecuteOn calls annotate.Ways or annotate.Relations on the given input (which is modified)
// with a fresh recording datasource.
func (h *H) ExecuteOn(ways osm.Ways, rels osm.Relations) (run *Run) {
	return h.ExecuteOnWith(ways, rels, false)
}

// ExecuteChildren is Execute with the datasource in its "children" configuration (DSC).
func (h *H) ExecuteChildren() *Run {
	if h.Way {
		return h.ExecuteOnWith(h.BuildWays(), nil, true)
	}
	return h.ExecuteOnWith(nil, h.BuildRelations(), true)
}

// ExecuteOnWith is ExecuteOn; asChildren selects the children configuration of the datasource.
func (h *H) ExecuteOnWith(ways osm.Ways, rels osm.Relations, asChildren bool) (run *Run) {
	return h.ExecuteOnOpts(ways, rels, asChildren, nil)
}

// ExecuteOnOpts is ExecuteOnWith; sf (may be nil) is a reused ChildFilter option value.
func (h *H) ExecuteOnOpts(ways osm.Ways, rels osm.Relations, asChildren bool, sf *SharedFilter) (run *Run) {
	run = &Run{Ways: ways, Relations: rels}
	opts := h.OptionsShared(sf)
	ds := h.Datasource()
	var wds annotate.NodeHistoryDatasourcer = ds
	var rds osm.HistoryDatasourcer = ds
	if asChildren {
		wds, rds = &DSC{ds}, &DSC{ds}
	}
	defer func() {
		if x := recover(); x != nil {
			run.Panic = fmt.Sprint(x)
		}
		run.Order = ds.Order()
		run.NCalls = len(ds.Calls)
	}()
	if h.Way {
		run.Err = annotate.Ways(context.Background(), run.Ways, wds, opts...)
	} else {
		run.Err = annotate.Relations(context.Background(), run.Relations, rds, opts...)
	}
	return run
}

// Observed renders what a run produced, compactly (for violation details).
func (run *Run) Observed() []string {
	var out []string
	for _, w := range run.Ways {
		var vs []string
		for _, n := range w.Nodes {
			vs = append(vs, fmt.Sprintf("n%d:v%d", n.ID, n.Version))
		}
		out = append(out, fmt.Sprintf("way v%d refs[%s] updates[%s]", w.Version, strings.Join(vs, " "), UpdatesText(w.Updates)))
	}
	for _, r := range run.Relations {
		var vs []string
		for _, m := range r.Members {
			vs = append(vs, fmt.Sprintf("%s%d:v%d", m.Type[:1], m.Ref, m.Version))
		}
		out = append(out, fmt.Sprintf("relation v%d refs[%s] updates[%s]", r.Version, strings.Join(vs, " "), UpdatesText(r.Updates)))
	}
	if run.Err != nil {
		out = append(out, fmt.Sprintf("error (%T): %v", run.Err, run.Err))
	}
	return out
}

// ---------------------------------------------------------------------------------------
// shape descriptors (violation keys, signatures)

// Canon sorts nothing and changes nothing; histories are already canonical by construction
// (children in index order, versions ascending). Shape gives a compact seed-independent
// description of the size and features of a history.
func (h *H) Shape() string {
	kind := "rel"
	if h.Way {
		kind = "way"
	}
	nv, del, burst := 0, 0, 0
	for _, c := range h.Children {
		nv += len(c.Vers)
		seen := map[int64]int{}
		for _, v := range c.Vers {
			if !v.Visible {
				del++
			}
			seen[v.Sec]++
		}
		for _, n := range seen {
			if n > burst {
				burst = n
			}
		}
	}
	return fmt.Sprintf("%s/%s/eps%d/p%d/c%d/v%d/del%d/same%d", kind, h.Regime, h.Eps, len(h.Parents), len(h.Children), nv, del, burst)
}

func floorDiv(a, b int64) int64 {
	q := a / b
	if a%b < 0 {
		q--
	}
	return q
}

// Features lists the pattern classes a history uses (for the evidence signature).
func (h *H) Features() []string {
	set := map[string]bool{}
	E := h.Eps * h.TPS()
	if h.TPS() > 1 {
		set["subsecond"] = true
	}
	for _, p := range h.Parents {
		if !p.Visible {
			set["pdel"] = true
		}
		seen := map[int]int{}
		for _, r := range p.Refs {
			seen[r.Child]++
			if seen[r.Child] == 2 {
				set["repeat"] = true
			}
			if r.Pre {
				set["pre"] = true
			}
			if r.Loc {
				set["location-only"] = true
			}
			if h.Stale > 0 {
				set["stale-updates"] = true
			}
		}
	}
	for i := 1; i < len(h.Parents); i++ {
		a, b := map[int]bool{}, map[int]bool{}
		for _, r := range h.Parents[i-1].Refs {
			a[r.Child] = true
		}
		for _, r := range h.Parents[i].Refs {
			b[r.Child] = true
		}
		for c := range a {
			if !b[c] && h.Parents[i].Visible {
				set["leave"] = true
			}
		}
		for c := range b {
			if !a[c] && h.Parents[i-1].Visible {
				set["enter"] = true
			}
		}
	}
	for ci, c := range h.Children {
		if c.Missing {
			set["missing"] = true
		}
		if c.Empty {
			set["empty"] = true
		}
		wasDel := false
		for k, v := range c.Vers {
			if !v.Visible {
				set["del"] = true
				wasDel = true
			} else if wasDel {
				set["undel"] = true
			}
			if k > 0 && c.Vers[k-1].Sec == v.Sec {
				set["samesec"] = true
				if c.Vers[k-1].Zone != v.Zone {
					set["samesec-zones"] = true
				}
			}
			if v.Zone != 0 {
				set["zones"] = true
			}
			for _, p := range h.Parents {
				used := false
				for _, r := range p.Refs {
					if r.Child == ci {
						used = true
					}
				}
				if !used {
					continue
				}
				if tps := h.TPS(); tps > 1 && v.Sec != p.Sec && floorDiv(v.Sec, tps) == floorDiv(p.Sec, tps) {
					if v.Sec > p.Sec {
						set["same-second-after-parent"] = true
					} else {
						set["same-second-before-parent"] = true
					}
				}
				switch d := v.Sec - p.Sec; {
				case d == 0:
					set["at"] = true
				case h.Regime == Stamp && d > 0 && d <= E && v.CS == p.CS:
					set["fwd"] = true
				case h.Regime == Stamp && d > 0 && d <= E:
					set["foreign"] = true
				case h.Regime == Stamp && d < 0 && -d <= E:
					set["inwin"] = true
				case h.Regime == Stamp && (d == E+1 || -d == E+1):
					set["edge"] = true
				}
			}
		}
		if len(c.Vers) > 0 && len(h.Parents) > 0 {
			if c.Vers[0].Sec > h.Parents[0].Sec {
				set["late-create"] = true
			}
			if c.Vers[len(c.Vers)-1].Sec > h.Parents[len(h.Parents)-1].Sec {
				set["after-last"] = true
			}
		}
	}
	var out []string
	for k := range set {
		out = append(out, k)
	}
	sort.Strings(out)
	return out
}
