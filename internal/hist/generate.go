package hist

import (
	"sort"

	"github.com/paulmach/osm"

	"verif/internal/gen"
)

// Params steer the generator. Everything else is drawn from the PRNG.
type Params struct {
	Way         bool
	Regime      Regime
	Eps         int64  // threshold in seconds (Stamp regime; passed but irrelevant in the Commit regime)
	Mode        string // clean | deletes | ignore | missing | filter | any | burst
	MaxParents  int
	MaxChildren int
	MaxVers     int
	// Polygon forces a multipolygon/boundary relation whose members are mostly ways with located
	// nodes (arcs of one ring) in outer/inner roles: the orientation annotation path.
	Polygon bool
}

// Thresholds are the grouping thresholds the workloads use.
var Thresholds = []int64{0, 1, 30, 1800, 7200}

type genState struct {
	r      *gen.R
	nextCS int64
}

func (g *genState) freshCS() int64 {
	g.nextCS++
	return g.nextCS
}

// Generate draws one history.
func Generate(r *gen.R, p Params) *H {
	g := &genState{r: r, nextCS: 100}
	h := &H{Way: p.Way, Regime: p.Regime, Eps: p.Eps}
	E := p.Eps
	if E < 1 {
		E = 1
	}
	if p.Regime == Stamp && p.Eps == 1800 && r.Chance(0.5) {
		h.EpsDefault = true
	}
	if !p.Way && r.Chance(0.12) {
		h.Polygon = true
	}
	if p.Polygon {
		h.Way, h.Polygon, h.Ring = false, true, true
		h.Boundary = r.Chance(0.3)
		p.Way = false
	}
	if r.Chance(0.3) {
		h.Shuffle = r.Uint64() | 1
	}
	// time zones: the same instants, expressed in different Locations, mixed within one
	// child's versions (and among parent versions); instants are unchanged
	zones := r.Chance(0.4)
	zone := func() int {
		if !zones || r.Chance(0.3) {
			return 0
		}
		return r.Intn(len(Zones))
	}

	// mode → feature probabilities
	pDel, pUndel := 0.0, 0.6
	switch p.Mode {
	case "deletes", "ignore":
		pDel = 0.18
	case "any":
		if r.Chance(0.5) {
			pDel = 0.12
		}
	case "missing", "filter", "burst":
		if r.Chance(0.25) {
			pDel = 0.08
		}
	}

	// ---- parent timeline
	np := r.Range(1, p.MaxParents)
	var base int64
	switch {
	case p.Regime == Commit:
		base = r.Int64Range(1357000000, 1600000000) // 2013 … 2020, after CommitInfoStart
	case r.Chance(0.8):
		base = r.Int64Range(1180000000, 1300000000) // 2007 … 2011
	default:
		base = r.Int64Range(1420000000, 1500000000) // timestamps after 2012 but still no commit times
	}
	gap := func() int64 {
		switch r.Intn(10) {
		case 0:
			return 1
		case 1:
			return r.Int64Range(1, E)
		case 2:
			return E + 1
		case 3:
			return 2*E + 1
		case 4:
			return r.Int64Range(2*E+2, 4*E+10)
		case 5:
			return 2 * E
		case 6, 7:
			return r.Int64Range(10*E+10, 20*E+3600)
		default:
			return r.Int64Range(86400, 40*86400)
		}
	}
	t := base
	for i := 0; i < np; i++ {
		if i > 0 {
			t += gap()
		}
		pv := PVer{Version: i + 1, Visible: true, Sec: t, CS: g.freshCS(), Zone: zone()}
		if p.Regime == Commit {
			pv.Lag = r.Int64Range(0, 90)
		}
		h.Parents = append(h.Parents, pv)
	}
	if r.Chance(0.15) { // version numbers with a gap
		k := r.Intn(np)
		for i := k; i < np; i++ {
			h.Parents[i].Version += 2
		}
	}
	// deleted parent versions (at least one stays visible)
	if np > 1 && r.Chance(0.3) {
		k := r.Intn(np)
		h.Parents[k].Visible = false
		if np > 3 && r.Chance(0.3) {
			k2 := r.Intn(np)
			if k2 != k {
				h.Parents[k2].Visible = false
			}
		}
		vis := 0
		for _, pv := range h.Parents {
			if pv.Visible {
				vis++
			}
		}
		if vis == 0 {
			h.Parents[0].Visible = true
		}
	}

	// ---- children
	nc := r.Range(1, p.MaxChildren)
	roles := []string{"", "outer", "inner", "stop", "via"}
	for c := 0; c < nc; c++ {
		ch := Child{Type: osm.TypeNode, Ref: int64(10 + c)}
		if !p.Way {
			switch k := r.Intn(4); {
			case k == 0 || (p.Polygon && r.Chance(0.8)):
				ch.Type = osm.TypeWay
			case k == 1:
				ch.Type = osm.TypeRelation
			}
			// equal refs with different types are distinct features
			if r.Chance(0.2) && c > 0 {
				ch.Ref = h.Children[c-1].Ref
				for _, o := range h.Children {
					if o.Type == ch.Type && o.Ref == ch.Ref {
						ch.Ref = int64(10 + c)
					}
				}
			}
		}
		h.Children = append(h.Children, ch)
	}

	// ---- references of each parent version
	var cur []Ref
	for i := range h.Parents {
		pv := &h.Parents[i]
		if cur == nil {
			n := r.Range(1, nc)
			perm := r.Perm(nc)
			for _, c := range perm[:n] {
				cur = append(cur, Ref{Child: c})
			}
			// repeats
			for r.Chance(0.35) && len(cur) < p.MaxChildren+3 {
				cur = append(cur, Ref{Child: cur[r.Intn(len(cur))].Child})
			}
			if r.Chance(0.3) { // closed ring style: first == last
				cur = append(cur, Ref{Child: cur[0].Child})
			}
		} else {
			next := append([]Ref(nil), cur...)
			if r.Chance(0.5) && len(next) > 1 { // a child leaves
				k := r.Intn(len(next))
				next = append(next[:k:k], next[k+1:]...)
			}
			if r.Chance(0.5) { // a child enters (or is repeated)
				k := r.Intn(len(next) + 1)
				next = append(next[:k:k], append([]Ref{{Child: r.Intn(nc)}}, next[k:]...)...)
			}
			if r.Chance(0.15) {
				r.Shuffle(len(next), func(a, b int) { next[a], next[b] = next[b], next[a] })
			}
			cur = next
		}
		if !pv.Visible {
			if r.Chance(0.7) {
				pv.Refs = nil
			} else {
				pv.Refs = append([]Ref(nil), cur...)
			}
			continue
		}
		pv.Refs = append([]Ref(nil), cur...)
		if !p.Way {
			for j := range pv.Refs {
				pv.Refs[j].Role = roles[r.Intn(len(roles))]
				if p.Polygon && r.Chance(0.85) {
					pv.Refs[j].Role = roles[1+r.Intn(2)]
				}
			}
		}
	}

	// ---- versions of each child
	last := h.Parents[np-1].Sec
	for c := range h.Children {
		ch := &h.Children[c]
		first := -1 // first parent (visible or not) that references the child
		for i, pv := range h.Parents {
			for _, rf := range pv.Refs {
				if rf.Child == c && first < 0 {
					first = i
				}
			}
		}
		if first < 0 {
			first = 0
		}
		if ch.Type == osm.TypeWay && r.Chance(0.35) {
			ch.Closed = true
		}
		nv := r.Range(1, p.MaxVers)
		if p.Mode == "burst" && r.Chance(0.6) {
			nv = r.Range(p.MaxVers/2+1, p.MaxVers)
		}
		type ev struct {
			sec int64
			cs  int64
		}
		var evs []ev
		// creation
		tf := h.Parents[first].Sec
		switch k := r.Intn(10); {
		case k < 6: // well before its first use
			evs = append(evs, ev{tf - r.Int64Range(2*E+2, 2*E+100000), g.freshCS()})
		case k == 6: // same instant as the parent, same changeset
			evs = append(evs, ev{tf, h.Parents[first].CS})
		case k == 7 && p.Regime == Stamp: // forward-grouped creation
			evs = append(evs, ev{tf + r.Int64Range(0, E), h.Parents[first].CS})
		case k == 8: // inside the window before the parent
			evs = append(evs, ev{tf - r.Int64Range(0, E), g.freshCS()})
		default:
			if p.Mode == "clean" {
				evs = append(evs, ev{tf - (2*E + 5), g.freshCS()})
			} else { // created only after its first use (inconsistent history)
				evs = append(evs, ev{tf + r.Int64Range(1, 3*E+50), g.freshCS()})
			}
		}
		for len(evs) < nv {
			a := r.Intn(np)
			T := h.Parents[a].Sec
			pcs := h.Parents[a].CS
			var s int64
			cs := int64(0)
			switch r.Intn(14) {
			case 0:
				s = T
			case 1:
				s = T - 1
			case 2:
				s = T + 1
			case 3:
				s = T - r.Int64Range(1, E)
			case 4:
				s = T + r.Int64Range(1, E)
			case 5:
				s = T - E
			case 6:
				s = T + E
			case 7:
				s = T - E - 1
			case 8:
				s = T + E + 1
			case 9:
				s = T + r.Int64Range(2*E+1, 2*E+500)
			case 10:
				if a+1 < np {
					s = r.Int64Range(T, h.Parents[a+1].Sec)
				} else {
					s = T + r.Int64Range(1, 1000000)
				}
			case 11:
				s = last + r.Int64Range(1, 5000000)
			case 12: // same second as one of its own versions
				s = evs[r.Intn(len(evs))].sec
			default:
				s = T - r.Int64Range(E+1, 3*E+100)
			}
			if s <= evs[0].sec { // edits come after the creation
				s = evs[0].sec + r.Int64Range(0, 3)
			}
			switch {
			case s >= T-E && s <= T+E && r.Chance(0.6):
				cs = pcs
			case r.Chance(0.2):
				cs = evs[len(evs)-1].cs
			default:
				cs = g.freshCS()
			}
			evs = append(evs, ev{s, cs})
			if (p.Mode == "burst" && r.Chance(0.7)) || r.Chance(0.08) { // several versions in that second
				for k := r.Range(1, 6); k > 0 && len(evs) < nv; k-- {
					evs = append(evs, ev{s, cs})
				}
			}
		}
		sort.SliceStable(evs, func(a, b int) bool { return evs[a].sec < evs[b].sec })
		ver := 1
		if r.Chance(0.1) {
			ver = r.Range(2, 5)
		}
		vis := true
		for k, e := range evs {
			v := Ver{Version: ver, Sec: e.sec, CS: e.cs, Zone: zone()}
			if p.Regime == Commit {
				v.Lag = r.Int64Range(0, 120)
			}
			// visibility: deletions and undeletions
			if k > 0 || p.Mode != "clean" {
				if vis && r.Chance(pDel) {
					vis = false
				} else if !vis && r.Chance(pUndel) {
					vis = true
				}
			}
			v.Visible = vis
			if ch.Type == osm.TypeNode {
				v.Lat = float64(c+1) + float64(ver)/1000
				v.Lon = -float64(c+1) - float64(ver)/1000
			}
			if ch.Type == osm.TypeWay {
				// direction kept / reversed / nodes changed between successive versions
				v.Rev = r.Chance(0.35)
				switch r.Intn(10) {
				case 0, 1:
					v.Alt = 1
				case 2:
					v.Alt = 2
				case 3:
					v.Alt = 3
				}
			}
			ch.Vers = append(ch.Vers, v)
			ver++
			if r.Chance(0.07) {
				ver += r.Range(1, 3)
			}
		}
	}

	// ---- natural leave-then-delete: a child that left is deleted together with the parent edit
	if pDel > 0 {
		for i := 1; i < np; i++ {
			if !r.Chance(0.3) {
				continue
			}
			for c := range h.Children {
				if usedIn(h.Parents[i-1], c) && !usedIn(h.Parents[i], c) {
					ch := &h.Children[c]
					n := len(ch.Vers)
					if n > 0 && ch.Vers[n-1].Sec <= h.Parents[i].Sec && ch.Vers[n-1].Visible {
						lv := ch.Vers[n-1]
						nv := Ver{Version: lv.Version + 1, Visible: false, Sec: h.Parents[i].Sec + r.Int64Range(0, 1), CS: h.Parents[i].CS, Lag: lv.Lag, Zone: zone()}
						ch.Vers = append(ch.Vers, nv)
					}
				}
			}
		}
	}

	// ---- options and special children
	switch p.Mode {
	case "ignore":
		h.IgnoreInc = true
		h.IgnoreMissing = r.Chance(0.3)
	case "missing":
		h.IgnoreMissing = r.Chance(0.5)
		h.IgnoreInc = r.Chance(0.2)
		markMissing(h, r)
	case "filter":
		h.Filter = make([]bool, nc)
		for c := range h.Filter {
			h.Filter[c] = r.Chance(0.5)
		}
		for i := range h.Parents {
			for j := range h.Parents[i].Refs {
				if r.Chance(0.6) {
					h.Parents[i].Refs[j].Pre = true
					if r.Chance(0.3) { // a location but no version: still unannotated
						h.Parents[i].Refs[j].Pre, h.Parents[i].Refs[j].Loc = false, true
					}
				}
			}
		}
		if r.Chance(0.2) {
			markMissing(h, r)
			h.IgnoreMissing = r.Chance(0.5)
		}
	case "any":
		h.IgnoreInc = r.Chance(0.3)
		h.IgnoreMissing = r.Chance(0.2)
		if r.Chance(0.15) {
			markMissing(h, r)
		}
		if r.Chance(0.2) { // pre-annotated input without a filter: everything is re-annotated
			for i := range h.Parents {
				for j := range h.Parents[i].Refs {
					if r.Chance(0.5) {
						h.Parents[i].Refs[j].Pre = true
						if r.Chance(0.3) {
							h.Parents[i].Refs[j].Pre, h.Parents[i].Refs[j].Loc = false, true
						}
					}
				}
			}
		}
	}
	if r.Chance(0.25) {
		h.Stale = r.Range(1, 4) // re-annotation of parents that already carry updates
	}
	if r.Chance(0.4) {
		subSecond(h, r)
	}
	return h
}

// subSecond re-expresses a history in milliseconds or nanoseconds and gives every instant a
// fraction: most edits of the history share one fraction (so "the same instant" and the
// window edges stay exact), others sit 1 tick before or after it, on the whole second, or
// anywhere in their second - child and parent edits then fall into one second in both orders,
// one tick apart, or exactly together. Version order of every child is kept.
func subSecond(h *H, r *gen.R) {
	h.TickNs = 1
	if r.Chance(0.4) {
		h.TickNs = 1e6
	}
	tps := h.TPS()
	g := r.Int64Range(1, tps-2)
	conv := func(sec int64) int64 {
		var f int64
		switch k := r.Intn(20); {
		case k < 8:
			f = g
		case k < 11:
			f = g + 1
		case k < 14:
			f = g - 1
		case k < 16:
			f = 0
		default:
			f = r.Int64Range(0, tps-1)
		}
		return sec*tps + f
	}
	for i := range h.Parents {
		h.Parents[i].Sec = conv(h.Parents[i].Sec)
		h.Parents[i].Lag = h.Parents[i].Lag*tps + r.Int64Range(0, tps-1)
	}
	for c := range h.Children {
		vs := h.Children[c].Vers
		ts := make([]int64, len(vs))
		for k := range vs {
			ts[k] = conv(vs[k].Sec)
			vs[k].Lag = vs[k].Lag*tps + r.Int64Range(0, tps-1)
		}
		sort.Slice(ts, func(a, b int) bool { return ts[a] < ts[b] })
		for k := range vs {
			vs[k].Sec = ts[k]
		}
	}
}

func usedIn(p PVer, c int) bool {
	for _, r := range p.Refs {
		if r.Child == c {
			return true
		}
	}
	return false
}

// markMissing removes the history of one child that a visible parent references (a child
// referenced only by deleted parent versions is a corner the property does not speak about).
func markMissing(h *H, r *gen.R) {
	var cand []int
	for c := range h.Children {
		for _, p := range h.Parents {
			if p.Visible && usedIn(p, c) {
				cand = append(cand, c)
				break
			}
		}
	}
	if len(cand) == 0 {
		return
	}
	c := cand[r.Intn(len(cand))]
	h.Children[c].Missing = true
}

// Burst returns the enumerated same-instant family: one parent version, one child at nIdx
// indices, one version before the parent and n-1 later versions that all share one second.
func Burst(way bool, regime Regime, n, nIdx int) *H { return BurstZ(way, regime, n, nIdx, false) }

// BurstZ is Burst; with zones the versions that share the second are expressed in rotating
// Locations (same instant, different time.Time structs).
func BurstZ(way bool, regime Regime, n, nIdx int, zones bool) *H {
	h := &H{Way: way, Regime: regime, Eps: 30}
	T := int64(1400000000)
	if regime == Stamp {
		T = 1250000000
	}
	ch := Child{Type: osm.TypeNode, Ref: 11}
	ch.Vers = append(ch.Vers, Ver{Version: 1, Visible: true, Sec: T - 5000, CS: 50, Lat: 1.001, Lon: -1.001})
	for v := 2; v <= n; v++ {
		nv := Ver{Version: v, Visible: true, Sec: T + 9000, CS: 60, Lat: 1 + float64(v)/1000, Lon: -1 - float64(v)/1000}
		if zones {
			nv.Zone = (v * 3) % len(Zones)
		}
		ch.Vers = append(ch.Vers, nv)
	}
	h.Children = []Child{ch}
	p := PVer{Version: 1, Visible: true, Sec: T, CS: 55}
	for j := 0; j < nIdx; j++ {
		p.Refs = append(p.Refs, Ref{Child: 0})
	}
	h.Parents = []PVer{p}
	return h
}

// Big returns a history whose first parent version receives about target updates (100-2000):
// shape "children" = many children with many later versions each; shape "indexes" = one to
// three children that each sit at many indexes. Later versions come two or three to a second,
// in mixed time zones; everything is visible and consistent, so the run succeeds.
func Big(r *gen.R, way bool, regime Regime, shape string, target int) *H {
	h := &H{Way: way, Regime: regime, Eps: Thresholds[r.Intn(len(Thresholds))]}
	T := int64(1400000000) + r.Int64Range(0, 1e7)
	if regime == Stamp {
		T = 1250000000 + r.Int64Range(0, 1e7)
	}
	E := h.Eps
	var nc, occ, nv int
	switch shape {
	case "indexes":
		nc = r.Range(1, 3)
		occ = r.Range(10, 60)
		nv = target/(nc*occ) + 1
	default:
		nc = r.Range(9, 40)
		occ = 1
		nv = target/nc + 1
	}
	if nv < 2 {
		nv = 2
	}
	zone := func() int {
		if r.Chance(0.5) {
			return 0
		}
		return r.Intn(len(Zones))
	}
	p := PVer{Version: 1, Visible: true, Sec: T, CS: 55, Zone: zone()}
	cs := int64(1000)
	for c := 0; c < nc; c++ {
		ch := Child{Type: osm.TypeNode, Ref: int64(10 + c)}
		if !way {
			ch.Type = []osm.Type{osm.TypeNode, osm.TypeWay, osm.TypeRelation}[r.Intn(3)]
		}
		sec := T - 2*E - r.Int64Range(10, 100000)
		for v := 1; v <= nv+1; v++ {
			cs++
			nv := Ver{Version: v, Visible: true, Sec: sec, CS: cs, Zone: zone()}
			if regime == Commit {
				nv.Lag = r.Int64Range(0, 60)
			}
			if ch.Type == osm.TypeNode {
				nv.Lat = float64(c+1) + float64(v)/10000
				nv.Lon = -float64(c+1) - float64(v)/10000
			}
			ch.Vers = append(ch.Vers, nv)
			switch {
			case v == 1:
				sec = T + E + r.Int64Range(1, 500)
			case r.Chance(0.55): // next version in the same second
			default:
				sec += r.Int64Range(1, 40)
			}
		}
		h.Children = append(h.Children, ch)
		for k := 0; k < occ; k++ {
			p.Refs = append(p.Refs, Ref{Child: c})
		}
	}
	r.Shuffle(len(p.Refs), func(a, b int) { p.Refs[a], p.Refs[b] = p.Refs[b], p.Refs[a] })
	h.Parents = []PVer{p}
	if r.Chance(0.4) { // a second parent version long after every child edit
		p2 := PVer{Version: 2, Visible: true, Sec: T + 100000000, CS: 56, Refs: append([]Ref(nil), p.Refs[:len(p.Refs)/2+1]...)}
		h.Parents = append(h.Parents, p2)
	}
	return h
}

// SubSecond returns the enumerated sub-second family: two parent versions at T+0.2s and
// T+1000.2s, one child whose v2 lies delta ticks from the first parent version and whose v3
// lies delta ticks from the second one (v1 long before); delta = 0, +-1 tick, and earlier /
// later inside the same second are the interesting values. sameCS gives v2/v3 the changeset
// of the parent version next to them.
func SubSecond(way bool, regime Regime, tickNs, eps, delta int64, sameCS bool) *H {
	h := &H{Way: way, Regime: regime, Eps: eps, TickNs: tickNs}
	tps := h.TPS()
	T := int64(1400000000)
	if regime == Stamp {
		T = 1250000000
	}
	t1 := T*tps + tps/5
	t2 := (T+1000)*tps + tps/5
	cs2, cs3 := int64(60), int64(61)
	if sameCS {
		cs2, cs3 = 55, 56
	}
	ch := Child{Type: osm.TypeNode, Ref: 11, Vers: []Ver{
		{Version: 1, Visible: true, Sec: (T - 50000) * tps, CS: 50, Lat: 1.001, Lon: -1.001},
		{Version: 2, Visible: true, Sec: t1 + delta, CS: cs2, Lat: 1.002, Lon: -1.002},
		{Version: 3, Visible: true, Sec: t2 + delta, CS: cs3, Lat: 1.003, Lon: -1.003},
	}}
	h.Children = []Child{ch}
	h.Parents = []PVer{
		{Version: 1, Visible: true, Sec: t1, CS: 55, Refs: []Ref{{Child: 0}}},
		{Version: 2, Visible: true, Sec: t2, CS: 56, Refs: []Ref{{Child: 0}, {Child: 0}}},
	}
	return h
}

// Wide returns a history that exercises the field widths of an update rather than their
// number: one parent version with n child positions (4097-70000), nearly all of them one
// filler child without later versions; a handful of "hot" children sit on both sides of every
// power of two from 2^8 to 2^16 and at i, i+4096, i+65536 (the same child, and different
// children edited in the same instant with the same version number); their later versions
// carry version numbers around 65535/65536/131072, instants more than 2^36 s apart, and
// sub-second ties (model ticks are milliseconds). Few updates per parent.
func Wide(r *gen.R, way bool, regime Regime, n int) *H {
	h := &H{Way: way, Regime: regime, Eps: 30, TickNs: 1e6}
	tps := h.TPS()
	T := int64(1400000000) * tps
	if regime == Stamp {
		T = int64(1250000000) * tps
	}
	typ := func() osm.Type {
		if way {
			return osm.TypeNode
		}
		return []osm.Type{osm.TypeNode, osm.TypeNode, osm.TypeWay, osm.TypeRelation}[r.Intn(4)]
	}
	mk := func(ref int64, later [][2]int64, cs int64) Child {
		ch := Child{Type: typ(), Ref: ref}
		ch.Vers = append(ch.Vers, Ver{Version: 1, Visible: true, Sec: T - 100000*tps, CS: 40})
		for _, l := range later {
			ch.Vers = append(ch.Vers, Ver{Version: int(l[0]), Visible: true, Sec: T + l[1], CS: cs})
		}
		for k := range ch.Vers {
			if ch.Type == osm.TypeNode {
				ch.Vers[k].Lat = float64(ref%80) + float64(k)/1000
				ch.Vers[k].Lon = -float64(ref%80) - float64(k)/1000
			}
			if r.Chance(0.3) {
				ch.Vers[k].Zone = r.Intn(len(Zones))
			}
		}
		return ch
	}
	far := (int64(1)<<36 + 5) * tps // more than 2^36 seconds later
	patterns := [][][2]int64{
		{{2, 100 * tps}, {3, 100 * tps}},                                      // one second, two versions
		{{65535, 50*tps + 100}, {65536, 50*tps + 200}, {65537, 50*tps + 200}}, // version crosses 16 bits inside one second
		{{2, 10 * tps}, {3, far}},                                             // instants 2^36 s apart
		{{131071, 70 * tps}, {131072, 70*tps + 1}, {131073, 80 * tps}},        // 17 bits, 1 ms apart
		{{2, 100*tps + 999}, {3, 101 * tps}, {70000, 101*tps + 1}},            // second boundary
		{{65536, 20 * tps}, {65537, far + 3}, {196608, far + 3}},              // all three widths at once
	}
	h.Children = append(h.Children, mk(10, nil, 0)) // filler
	refs := make([]Ref, n)
	place := func(c int, pos ...int) {
		for _, p := range pos {
			if p >= 0 && p < n {
				refs[p] = Ref{Child: c}
			}
		}
	}
	add := func(p [][2]int64, cs int64) int {
		h.Children = append(h.Children, mk(int64(10+len(h.Children)), p, cs))
		return len(h.Children) - 1
	}
	// the same child at i, i+4096, i+65536
	a := add(patterns[0], 60)
	place(a, 3, 3+4096, 3+65536)
	// different children at i, i+4096, i+65536 edited in the same instant with equal versions
	for k, off := range []int{0, 4096, 65536, 8192} {
		c := add(patterns[(1+k/2)%2], 61)
		place(c, 200+off)
	}
	for k, off := range []int{0, 4096, 65536} {
		c := add(patterns[3], 62)
		place(c, 1000+off)
		_ = k
	}
	// both sides of every power of two
	hot := []int{}
	for k := 0; k < 5; k++ {
		hot = append(hot, add(patterns[(2+k)%len(patterns)], int64(70+k)))
	}
	q := 0
	for e := 8; e <= 16; e++ {
		for _, p := range []int{1<<e - 1, 1 << e, 1<<e + 1} {
			place(hot[q%len(hot)], p)
			q++
		}
	}
	place(hot[r.Intn(len(hot))], n-1, 0)
	for k := 0; k < 6; k++ { // a few random positions
		place(hot[r.Intn(len(hot))], r.Intn(n))
	}
	if !way {
		for j := range refs {
			if refs[j].Child != 0 {
				refs[j].Role = []string{"", "outer", "inner"}[r.Intn(3)]
			}
		}
	}
	h.Parents = []PVer{{Version: 1, Visible: true, Sec: T, CS: 55, Refs: refs}}
	return h
}

// Skew returns the enumerated clock-skew family: one parent version, one child at nIdx
// indices with v1 before the parent and n later versions whose instants grow by 10 s per
// version, except at the given positions (1-based index into the later versions, >= 2), where
// the version carries an EARLIER instant than its predecessor (clock skew of old editors,
// imports: valid data). All later versions become updates of the single parent version, so
// the expected list order (index, time, version) differs from version order there.
func Skew(way bool, regime Regime, n, nIdx int, inversions []int) *H {
	h := &H{Way: way, Regime: regime, Eps: 30}
	T := int64(1400000000)
	if regime == Stamp {
		T = 1250000000
	}
	ch := Child{Type: osm.TypeNode, Ref: 11}
	ch.Vers = append(ch.Vers, Ver{Version: 1, Visible: true, Sec: T - 5000, CS: 50, Lat: 1.001, Lon: -1.001})
	inv := map[int]bool{}
	for _, p := range inversions {
		inv[p] = true
	}
	for k := 1; k <= n; k++ {
		sec := T + 1000 + int64(k)*10
		if inv[k] {
			sec -= 15 // 5 s before the previous version
		}
		ch.Vers = append(ch.Vers, Ver{Version: k + 1, Visible: true, Sec: sec, CS: int64(60 + k), Lat: 1 + float64(k+1)/10000, Lon: -1 - float64(k+1)/10000})
	}
	h.Children = []Child{ch}
	p := PVer{Version: 1, Visible: true, Sec: T, CS: 55}
	for j := 0; j < nIdx; j++ {
		p.Refs = append(p.Refs, Ref{Child: 0})
	}
	h.Parents = []PVer{p}
	return h
}

// Handover returns a history in which child A belongs to parent version q, is dropped by
// version q+1 and is not visible at q+1 (variant 0/1: deleted in the very commit that wrote
// q+1; variant 2: deleted in between, which needs IgnoreInconsistency), while child B appears
// for the first time in q+1; 0-3 further children stay throughout. Few children, so that the
// library's map iteration visits B right after A in a good share of the runs.
func Handover(r *gen.R, way bool, regime Regime, variant int) *H {
	h := &H{Way: way, Regime: regime, Eps: Thresholds[r.Intn(3)]}
	E := h.Eps
	if E < 1 {
		E = 1
	}
	T := int64(1400000000) + r.Int64Range(0, 1e7)
	if regime == Stamp {
		T = 1250000000 + r.Int64Range(0, 1e7)
	}
	np := r.Range(2, 4)
	q := r.Intn(np - 1)
	for i := 0; i < np; i++ {
		h.Parents = append(h.Parents, PVer{Version: i + 1, Visible: true, Sec: T + int64(i)*(100000+20*E), CS: int64(500 + i)})
	}
	typ := func() osm.Type {
		if way {
			return osm.TypeNode
		}
		return []osm.Type{osm.TypeNode, osm.TypeWay, osm.TypeRelation}[r.Intn(3)]
	}
	mk := func(created int64) int {
		c := len(h.Children)
		ch := Child{Type: typ(), Ref: int64(10 + c)}
		ch.Vers = []Ver{{Version: 1, Visible: true, Sec: created, CS: int64(100 + c)}}
		h.Children = append(h.Children, ch)
		return c
	}
	addVer := func(c int, sec int64, vis bool, cs int64) {
		ch := &h.Children[c]
		ch.Vers = append(ch.Vers, Ver{Version: ch.Vers[len(ch.Vers)-1].Version + 1, Visible: vis, Sec: sec, CS: cs})
	}
	tq, tn := h.Parents[q].Sec, h.Parents[q+1].Sec
	a := mk(T - 50000 - 3*E)
	if r.Chance(0.5) {
		addVer(a, tq+3*E+r.Int64Range(10, 1000), true, 900) // an ordinary edit while it is a member
	}
	switch variant {
	case 2: // deleted well between the two parent versions
		addVer(a, tq+40000+r.Int64Range(0, 1000), false, 901)
		h.IgnoreInc = true
	default: // deleted together with the edit that drops it from the parent
		addVer(a, tn, false, h.Parents[q+1].CS)
		h.IgnoreInc = variant == 1
	}
	b := mk(T - 40000 - 3*E)
	if r.Chance(0.4) {
		addVer(b, tn+3*E+r.Int64Range(10, 1000), true, 902)
	}
	var stay []int
	for k := r.Intn(4); k > 0; k-- {
		c := mk(T - 60000 - 3*E - int64(k))
		if r.Chance(0.5) {
			addVer(c, T+3*E+r.Int64Range(10, 90000), true, int64(910+k))
		}
		stay = append(stay, c)
	}
	for i := range h.Parents {
		var refs []Ref
		for _, c := range stay {
			refs = append(refs, Ref{Child: c})
		}
		if i <= q {
			refs = append(refs, Ref{Child: a})
		}
		if i > q {
			refs = append(refs, Ref{Child: b})
		}
		r.Shuffle(len(refs), func(x, y int) { refs[x], refs[y] = refs[y], refs[x] })
		h.Parents[i].Refs = refs
	}
	for c := range h.Children {
		for k := range h.Children[c].Vers {
			v := &h.Children[c].Vers[k]
			if h.Children[c].Type == osm.TypeNode {
				v.Lat = float64(c+1) + float64(v.Version)/1000
				v.Lon = -float64(c+1) - float64(v.Version)/1000
			}
		}
	}
	return h
}

// WindowShape returns the enumerated forward-grouping family (timestamp regime): a parent
// version at T with changeset P, one child with v1 long before, optionally one version inside
// the window before T (beforeOff > 0: that many steps before T), and one version per letter
// of pattern after T inside the threshold, 'O' in the parent's own changeset, 'F' in a
// foreign one, step ticks apart; a second parent version follows much later. All visible.
func WindowShape(way bool, eps int64, pattern string, beforeOff int, nIdx int) *H {
	h := &H{Way: way, Regime: Stamp, Eps: eps}
	T := int64(1250000000)
	step := eps / int64(len(pattern)+2)
	if step < 1 {
		step = 1
	}
	ch := Child{Type: osm.TypeNode, Ref: 11}
	ver := 1
	add := func(sec, cs int64) {
		ch.Vers = append(ch.Vers, Ver{Version: ver, Visible: true, Sec: sec, CS: cs, Lat: 1 + float64(ver)/1000, Lon: -1 - float64(ver)/1000})
		ver++
	}
	add(T-50000-3*eps, 40)
	if beforeOff > 0 {
		add(T-int64(beforeOff)*step, 41)
	}
	for k, l := range pattern {
		cs := int64(70 + k) // foreign
		if l == 'O' {
			cs = 55
		}
		add(T+int64(k+1)*step, cs)
	}
	add(T+200000, 90) // an ordinary later edit
	h.Children = []Child{ch}
	p1 := PVer{Version: 1, Visible: true, Sec: T, CS: 55}
	p2 := PVer{Version: 2, Visible: true, Sec: T + 400000 + 3*eps, CS: 56}
	for j := 0; j < nIdx; j++ {
		p1.Refs = append(p1.Refs, Ref{Child: 0})
		p2.Refs = append(p2.Refs, Ref{Child: 0})
	}
	h.Parents = []PVer{p1, p2}
	return h
}

// MakeSpan turns a commit-regime history into one that crosses osm.CommitInfoStart: a cut is
// drawn among all parent and child version instants (every position is possible, including
// before the first and after the last); everything before the cut loses its commit time and
// is moved 2*eps+10 s further back (so that no element without commit time lies within a
// threshold of the boundary), and the whole history is shifted so that the cut falls on
// osm.CommitInfoStart. The regime thereby becomes a property of each version.
func MakeSpan(h *H, r *gen.R) {
	if h.Regime != Commit || h.Mixed {
		return
	}
	var ts []int64
	for _, p := range h.Parents {
		ts = append(ts, p.Sec)
	}
	for _, c := range h.Children {
		for _, v := range c.Vers {
			ts = append(ts, v.Sec)
		}
	}
	sort.Slice(ts, func(a, b int) bool { return ts[a] < ts[b] })
	cut := ts[r.Intn(len(ts))]
	if r.Chance(0.1) {
		cut = ts[len(ts)-1] + 1 // nothing carries commit times
	}
	tps := h.TPS()
	cis := h.Tick(osm.CommitInfoStart)
	gap := (2*h.Eps + 10) * tps
	if h.EpsDefault {
		gap = (2*1800 + 10) * tps
	}
	mv := func(s int64) int64 {
		s += cis - cut
		if s < cis {
			s -= gap
		}
		return s
	}
	for i := range h.Parents {
		h.Parents[i].Sec = mv(h.Parents[i].Sec)
	}
	for c := range h.Children {
		for k := range h.Children[c].Vers {
			h.Children[c].Vers[k].Sec = mv(h.Children[c].Vers[k].Sec)
		}
	}
	h.Span, h.MixSec = true, cis
}
