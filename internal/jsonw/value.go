// Package jsonw is the harness' own osmjson producer: a typed model of an Overpass / OSM-API
// style JSON document (every optional key is an explicit present/absent bit), a generator for
// such models, and a JSON text renderer with layout noise (key order, white space, string
// escapes, number spellings). It never calls a marshaller of the library under test and does
// not use encoding/json to produce text.
package jsonw

import (
	"strconv"
	"strings"
	"unicode/utf8"

	"verif/internal/gen"
)

// Value is a JSON value tree with ordered object members.
type Value interface{ isValue() }

// Object is a JSON object; member order is the order written (unless the style shuffles).
type Object []Field

// Field is one object member.
type Field struct {
	Key string
	Val Value
}

// Array is a JSON array.
type Array []Value

// String is a JSON string (valid UTF-8 expected).
type String string

// Plain is a JSON string that producers never spell with optional escapes (timestamps: Go's
// time.Time.UnmarshalJSON, like many date parsers, reads the literal text between the quotes).
type Plain string

// Number is a JSON number given by its literal text.
type Number string

// Bool is a JSON boolean.
type Bool bool

// Null is the JSON null.
type Null struct{}

func (Object) isValue() {}
func (Array) isValue()  {}
func (String) isValue() {}
func (Plain) isValue()  {}
func (Number) isValue() {}
func (Bool) isValue()   {}
func (Null) isValue()   {}

// Int makes an integer number.
func Int(v int64) Number { return Number(strconv.FormatInt(v, 10)) }

// Style is the layout noise applied by Write. The zero Style (or nil) writes compact text with
// minimal escaping and members in model order.
type Style struct {
	R       *gen.R // source of noise; required when any of the switches is set
	Shuffle bool   // random member order in every object
	Space   int    // 0 none, 1 random blanks/newlines between tokens, 2 indented
	Escape  int    // 0 minimal, 1 some characters as \uXXXX (and \/), 2 every non-ASCII rune as \uXXXX
}

// Describe names the style for evidence.
func (s *Style) Describe() string {
	if s == nil {
		return "compact"
	}
	return "shuffle=" + strconv.FormatBool(s.Shuffle) + ",space=" + strconv.Itoa(s.Space) + ",escape=" + strconv.Itoa(s.Escape)
}

// Write renders v as JSON text.
func Write(v Value, st *Style) []byte {
	if st == nil {
		st = &Style{}
	}
	var sb strings.Builder
	w := writer{sb: &sb, st: st}
	w.value(v, 0)
	if st.Space == 2 || (st.Space == 1 && st.R.Chance(0.5)) {
		sb.WriteByte('\n')
	}
	return []byte(sb.String())
}

type writer struct {
	sb *strings.Builder
	st *Style
}

var blanks = []string{" ", "  ", "\n", "\t", "\r\n", " \n  "}

func (w *writer) gap(depth int, newline bool) {
	switch w.st.Space {
	case 1:
		if w.st.R.Chance(0.4) {
			w.sb.WriteString(blanks[w.st.R.Intn(len(blanks))])
		}
	case 2:
		if newline {
			w.sb.WriteByte('\n')
			for i := 0; i < depth; i++ {
				w.sb.WriteString("  ")
			}
		}
	}
}

func (w *writer) value(v Value, depth int) {
	switch x := v.(type) {
	case nil:
		w.sb.WriteString("null")
	case Null:
		w.sb.WriteString("null")
	case Bool:
		if x {
			w.sb.WriteString("true")
		} else {
			w.sb.WriteString("false")
		}
	case Number:
		w.sb.WriteString(string(x))
	case String:
		w.str(string(x))
	case Plain:
		saved := w.st.Escape
		w.st.Escape = 0
		w.str(string(x))
		w.st.Escape = saved
	case Array:
		w.sb.WriteByte('[')
		for i, e := range x {
			if i > 0 {
				w.sb.WriteByte(',')
			}
			w.gap(depth+1, true)
			w.value(e, depth+1)
		}
		if len(x) > 0 {
			w.gap(depth, true)
		} else {
			w.gap(depth, false)
		}
		w.sb.WriteByte(']')
	case Object:
		fields := x
		if w.st.Shuffle && len(x) > 1 {
			fields = make(Object, len(x))
			copy(fields, x)
			w.st.R.Shuffle(len(fields), func(i, j int) { fields[i], fields[j] = fields[j], fields[i] })
		}
		w.sb.WriteByte('{')
		for i, f := range fields {
			if i > 0 {
				w.sb.WriteByte(',')
			}
			w.gap(depth+1, true)
			w.str(f.Key)
			w.gap(depth+1, false)
			w.sb.WriteByte(':')
			if w.st.Space == 2 {
				w.sb.WriteByte(' ')
			} else {
				w.gap(depth+1, false)
			}
			w.value(f.Val, depth+1)
		}
		if len(fields) > 0 {
			w.gap(depth, true)
		}
		w.sb.WriteByte('}')
	default:
		panic("jsonw: unknown value type")
	}
}

const hexdigits = "0123456789abcdef"

func (w *writer) u16(c uint16) {
	w.sb.WriteString(`\u`)
	up := w.st.R != nil && w.st.Escape > 0 && w.st.R.Bool()
	for s := 12; s >= 0; s -= 4 {
		d := hexdigits[(c>>uint(s))&0xf]
		if up && d >= 'a' {
			d -= 'a' - 'A'
		}
		w.sb.WriteByte(d)
	}
}

func (w *writer) uescape(r rune) {
	if r >= 0x10000 {
		r -= 0x10000
		w.u16(uint16(0xd800 + (r >> 10)))
		w.u16(uint16(0xdc00 + (r & 0x3ff)))
		return
	}
	w.u16(uint16(r))
}

// str writes a JSON string literal. Invalid UTF-8 bytes are written as U+FFFD escapes (the
// generators never produce them).
func (w *writer) str(s string) {
	w.sb.WriteByte('"')
	for i := 0; i < len(s); {
		r, n := utf8.DecodeRuneInString(s[i:])
		if r == utf8.RuneError && n == 1 {
			w.u16(0xfffd)
			i++
			continue
		}
		i += n
		switch {
		case r == '"':
			w.sb.WriteString(`\"`)
		case r == '\\':
			w.sb.WriteString(`\\`)
		case r < 0x20:
			short := map[rune]string{'\n': `\n`, '\t': `\t`, '\r': `\r`, '\b': `\b`, '\f': `\f`}
			if e, ok := short[r]; ok && (w.st.Escape == 0 || w.st.R.Bool()) {
				w.sb.WriteString(e)
			} else {
				w.u16(uint16(r))
			}
		case w.st.Escape == 2 && r >= 0x80:
			w.uescape(r)
		case w.st.Escape == 1 && w.st.R.Chance(0.15):
			if r == '/' && w.st.R.Bool() {
				w.sb.WriteString(`\/`)
			} else {
				w.uescape(r)
			}
		default:
			w.sb.WriteRune(r)
		}
	}
	w.sb.WriteByte('"')
}
