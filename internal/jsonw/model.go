package jsonw

import (
	"strconv"
	"time"
)

// Float is a JSON number with the float64 value it denotes and the literal spelling chosen
// by the generator (strconv.ParseFloat(Text) == V is guaranteed by NewFloat).
type Float struct {
	V    float64
	Text string
}

// NewFloat spells v in one of several equivalent ways (style 0 = shortest).
func NewFloat(v float64, style int) Float {
	var t string
	switch style {
	case 1:
		t = strconv.FormatFloat(v, 'f', 7, 64)
	case 2:
		t = strconv.FormatFloat(v, 'e', -1, 64)
	case 3:
		t = strconv.FormatFloat(v, 'E', -1, 64)
	case 4:
		t = strconv.FormatFloat(v, 'f', -1, 64)
		if !containsAny(t, ".eE") {
			t += ".0"
		}
	default:
		t = strconv.FormatFloat(v, 'f', -1, 64)
	}
	if back, err := strconv.ParseFloat(t, 64); err != nil || back != v {
		t = strconv.FormatFloat(v, 'g', -1, 64)
	}
	if t == "-0" || t == "-0.0" { // keep clear of negative zero spellings
		t = "0"
	}
	return Float{V: v, Text: t}
}

func containsAny(s, chars string) bool {
	for i := 0; i < len(s); i++ {
		for j := 0; j < len(chars); j++ {
			if s[i] == chars[j] {
				return true
			}
		}
	}
	return false
}

func (f Float) value() Value { return Number(f.Text) }

// Time is an instant with the RFC 3339 spelling chosen by the generator.
type Time struct {
	T      time.Time // the instant (UTC)
	Offset int       // minutes east of UTC used for the spelling (0 = "Z")
}

// Text spells the instant as RFC 3339 with optional fraction and zone offset.
func (t Time) Text() string {
	if t.Offset == 0 {
		return t.T.UTC().Format(time.RFC3339Nano)
	}
	return t.T.In(time.FixedZone("", t.Offset*60)).Format(time.RFC3339Nano)
}

func (t Time) value() Value { return Plain(t.Text()) }

// Tag is one key/value pair; a tag list carries unique keys.
type Tag struct{ K, V string }

// VersionKind says how the top-level version is written.
type VersionKind int

// The spellings of the top-level version.
const (
	VersionAbsent VersionKind = iota
	VersionNumber             // Overpass: "version": 0.6
	VersionString             // OSM API:  "version": "0.6"
	VersionNull               // "version": null (grey zone)
)

func (k VersionKind) String() string {
	return [...]string{"absent", "number", "string", "null"}[k]
}

// Doc is a whole osmjson document.
type Doc struct {
	VersionKind VersionKind
	Version     string // number literal or string content
	Generator   *string
	Copyright   *string
	Attribution *string
	License     *string
	Bounds      *Bounds // OSM-API style top-level "bounds" (never an element)
	Extra       Object  // unknown top-level keys (osm3s, remark, ...)
	NoElements  bool    // leave the "elements" key out altogether
	Elements    []Element
	// NullTop / NullElem name the absent members that are written as null (bookkeeping of the
	// generator: the null members themselves sit in the Extra lists; version: VersionNull).
	NullTop, NullElem []string
}

// Element is one entry of elements[].
type Element interface {
	Kind() string
	Object() Object
}

// Meta is the metadata shared by nodes, ways and relations.
type Meta struct {
	User      *string
	UID       *int64
	Visible   *bool
	Version   *int64
	Changeset *int64
	Timestamp *Time
	Committed *Time
	HasTags   bool // "tags" key written (possibly as {})
	Tags      []Tag
	Extra     Object // unknown keys
}

// Node is a node element.
type Node struct {
	ID       int64
	Lat, Lon *Float
	Meta
}

// Bounds is a bounds object; LowerKeys writes Overpass / OSM-API spelling (minlat, ...),
// otherwise the spelling this library writes (MinLat, ...).
type Bounds struct {
	MinLat, MaxLat, MinLon, MaxLon Float
	LowerKeys                      bool
	Omit                           [4]bool // member left out (MinLat, MaxLat, MinLon, MaxLon); its value is 0
	Extra                          Object
}

// Update is a child update of a way or relation (library extension).
type Update struct {
	Index, Version int64
	Timestamp      Time
	Changeset      *int64
	Lat, Lon       *Float
	Reverse        *bool
	Extra          Object
}

// Way is a way element.
type Way struct {
	ID int64
	Meta
	HasNodes bool // "nodes" key written
	Nodes    []int64
	Updates  []Update // written when non-nil (possibly as [])
	Bounds   *Bounds
}

// Member is a relation member.
type Member struct {
	Type        string
	Ref         int64
	Role        *string
	Version     *int64
	Changeset   *int64
	Lat, Lon    *Float
	Orientation *int64
	HasNodes    bool
	Nodes       []int64
	Extra       Object
}

// Relation is a relation element.
type Relation struct {
	ID int64
	Meta
	HasMembers bool
	Members    []Member
	Updates    []Update
	Bounds     *Bounds
}

// Comment is a changeset discussion comment.
type Comment struct {
	User  *string
	UID   *int64
	Date  *Time
	Text  *string
	Extra Object
}

// Changeset is a changeset element (library extension of osmjson).
type Changeset struct {
	ID                             int64
	User                           *string
	UID                            *int64
	CreatedAt, ClosedAt            *Time
	Open                           *bool
	NumChanges                     *int64
	MinLat, MaxLat, MinLon, MaxLon *Float
	CommentsCount                  *int64
	HasTags                        bool
	Tags                           []Tag
	HasDiscussion                  bool
	DiscussionBare                 bool // "discussion": {} without a comments member
	Comments                       []Comment
	Extra                          Object
}

// NoteComment is a comment of a note.
type NoteComment struct {
	Date     *Time
	DateNull bool // written as null
	UID      *int64
	User     *string
	UserURL  *string
	Action   *string
	Text     *string
	HTML     *string
	Extra    Object
}

// Note is a note element (library extension of osmjson).
type Note struct {
	ID                                   int64
	Lat, Lon                             *Float
	URL, CommentURL, CloseURL, ReopenURL *string
	DateCreated, DateClosed              *Time
	DateCreatedNull, DateClosedNull      bool
	Status                               *string
	HasComments                          bool
	Comments                             []NoteComment
	Extra                                Object
}

// User is a user element (library extension of osmjson).
type User struct {
	ID               int64
	Name             *string
	Description      *string
	ImgHref          *string
	ChangesetsCount  *int64
	TracesCount      *int64
	Home             bool
	HomeLat, HomeLon Float
	HomeZoom         int64
	HasLanguages     bool
	Languages        []string
	BlocksCount      *int64
	BlocksActive     *int64
	MsgRecvCount     *int64
	MsgRecvUnread    *int64
	MsgSentCount     *int64
	CreatedAt        *Time
	Extra            Object
}

// Unknown is an element of a kind this library does not know (Overpass "count", "area").
type Unknown struct {
	Type string
	Body Object
}

func (*Node) Kind() string      { return "node" }
func (*Way) Kind() string       { return "way" }
func (*Relation) Kind() string  { return "relation" }
func (*Changeset) Kind() string { return "changeset" }
func (*Note) Kind() string      { return "note" }
func (*User) Kind() string      { return "user" }
func (u *Unknown) Kind() string { return u.Type }

type objb struct{ o Object }

func (b *objb) put(k string, v Value) { b.o = append(b.o, Field{k, v}) }
func (b *objb) str(k string, p *string) {
	if p != nil {
		b.put(k, String(*p))
	}
}
func (b *objb) int(k string, p *int64) {
	if p != nil {
		b.put(k, Int(*p))
	}
}
func (b *objb) flt(k string, p *Float) {
	if p != nil {
		b.put(k, p.value())
	}
}
func (b *objb) boolean(k string, p *bool) {
	if p != nil {
		b.put(k, Bool(*p))
	}
}
func (b *objb) time(k string, p *Time) {
	if p != nil {
		b.put(k, p.value())
	}
}
func (b *objb) extra(e Object) { b.o = append(b.o, e...) }

func tagsValue(ts []Tag) Value {
	o := Object{}
	for _, t := range ts {
		o = append(o, Field{t.K, String(t.V)})
	}
	return o
}

func idsValue(ids []int64) Value {
	a := Array{}
	for _, id := range ids {
		a = append(a, Int(id))
	}
	return a
}

func (m *Meta) fill(b *objb) {
	b.str("user", m.User)
	b.int("uid", m.UID)
	b.boolean("visible", m.Visible)
	b.int("version", m.Version)
	b.int("changeset", m.Changeset)
	b.time("timestamp", m.Timestamp)
	b.time("committed", m.Committed)
	if m.HasTags {
		b.put("tags", tagsValue(m.Tags))
	}
	b.extra(m.Extra)
}

// Value renders the bounds object.
func (bd *Bounds) Value() Value {
	b := &objb{}
	names := [4]string{"MinLat", "MaxLat", "MinLon", "MaxLon"}
	if bd.LowerKeys {
		names = [4]string{"minlat", "maxlat", "minlon", "maxlon"}
	}
	for _, i := range []int{0, 2, 1, 3} {
		if !bd.Omit[i] {
			b.put(names[i], [4]Float{bd.MinLat, bd.MaxLat, bd.MinLon, bd.MaxLon}[i].value())
		}
	}
	b.extra(bd.Extra)
	return b.o
}

func updatesValue(us []Update) Value {
	a := Array{}
	for _, u := range us {
		b := &objb{}
		b.put("index", Int(u.Index))
		b.put("version", Int(u.Version))
		b.put("timestamp", u.Timestamp.value())
		b.int("changeset", u.Changeset)
		b.flt("lat", u.Lat)
		b.flt("lon", u.Lon)
		b.boolean("reverse", u.Reverse)
		b.extra(u.Extra)
		a = append(a, b.o)
	}
	return a
}

// Object renders the node.
func (n *Node) Object() Object {
	b := &objb{}
	b.put("type", String("node"))
	b.put("id", Int(n.ID))
	b.flt("lat", n.Lat)
	b.flt("lon", n.Lon)
	n.Meta.fill(b)
	return b.o
}

// Object renders the way.
func (w *Way) Object() Object {
	b := &objb{}
	b.put("type", String("way"))
	b.put("id", Int(w.ID))
	w.Meta.fill(b)
	if w.HasNodes {
		b.put("nodes", idsValue(w.Nodes))
	}
	if w.Updates != nil {
		b.put("updates", updatesValue(w.Updates))
	}
	if w.Bounds != nil {
		b.put("bounds", w.Bounds.Value())
	}
	return b.o
}

// Object renders the relation.
func (r *Relation) Object() Object {
	b := &objb{}
	b.put("type", String("relation"))
	b.put("id", Int(r.ID))
	r.Meta.fill(b)
	if r.HasMembers {
		a := Array{}
		for _, m := range r.Members {
			mb := &objb{}
			mb.put("type", String(m.Type))
			mb.put("ref", Int(m.Ref))
			mb.str("role", m.Role)
			mb.int("version", m.Version)
			mb.int("changeset", m.Changeset)
			mb.flt("lat", m.Lat)
			mb.flt("lon", m.Lon)
			mb.int("orientation", m.Orientation)
			if m.HasNodes {
				mb.put("nodes", idsValue(m.Nodes))
			}
			mb.extra(m.Extra)
			a = append(a, mb.o)
		}
		b.put("members", a)
	}
	if r.Updates != nil {
		b.put("updates", updatesValue(r.Updates))
	}
	if r.Bounds != nil {
		b.put("bounds", r.Bounds.Value())
	}
	return b.o
}

// Object renders the changeset.
func (c *Changeset) Object() Object {
	b := &objb{}
	b.put("type", String("changeset"))
	b.put("id", Int(c.ID))
	b.str("user", c.User)
	b.int("uid", c.UID)
	b.time("created_at", c.CreatedAt)
	b.time("closed_at", c.ClosedAt)
	b.boolean("open", c.Open)
	b.int("num_changes", c.NumChanges)
	b.flt("min_lat", c.MinLat)
	b.flt("max_lat", c.MaxLat)
	b.flt("min_lon", c.MinLon)
	b.flt("max_lon", c.MaxLon)
	b.int("comments_count", c.CommentsCount)
	if c.HasTags {
		b.put("tags", tagsValue(c.Tags))
	}
	if c.HasDiscussion {
		a := Array{}
		for _, cm := range c.Comments {
			cb := &objb{}
			cb.str("user", cm.User)
			cb.int("uid", cm.UID)
			cb.time("date", cm.Date)
			cb.str("text", cm.Text)
			cb.extra(cm.Extra)
			a = append(a, cb.o)
		}
		if c.DiscussionBare {
			b.put("discussion", Object{})
		} else {
			b.put("discussion", Object{{"comments", a}})
		}
	}
	b.extra(c.Extra)
	return b.o
}

func dateValue(b *objb, k string, t *Time, null bool) {
	switch {
	case null:
		b.put(k, Null{})
	case t != nil:
		b.put(k, t.value())
	}
}

// Object renders the note.
func (n *Note) Object() Object {
	b := &objb{}
	b.put("type", String("note"))
	b.put("id", Int(n.ID))
	b.flt("lat", n.Lat)
	b.flt("lon", n.Lon)
	b.str("url", n.URL)
	b.str("comment_url", n.CommentURL)
	b.str("close_url", n.CloseURL)
	b.str("reopen_url", n.ReopenURL)
	dateValue(b, "date_created", n.DateCreated, n.DateCreatedNull)
	dateValue(b, "date_closed", n.DateClosed, n.DateClosedNull)
	b.str("status", n.Status)
	if n.HasComments {
		a := Array{}
		for _, c := range n.Comments {
			cb := &objb{}
			dateValue(cb, "date", c.Date, c.DateNull)
			cb.int("uid", c.UID)
			cb.str("user", c.User)
			cb.str("user_url", c.UserURL)
			cb.str("action", c.Action)
			cb.str("text", c.Text)
			cb.str("html", c.HTML)
			cb.extra(c.Extra)
			a = append(a, cb.o)
		}
		b.put("comments", a)
	}
	b.extra(n.Extra)
	return b.o
}

func countObj(k string, p *int64) Object {
	b := &objb{}
	b.int(k, p)
	return b.o
}

// Object renders the user.
func (u *User) Object() Object {
	b := &objb{}
	b.put("type", String("user"))
	b.put("id", Int(u.ID))
	b.str("name", u.Name)
	b.str("description", u.Description)
	if u.ImgHref != nil {
		b.put("img", Object{{"href", String(*u.ImgHref)}})
	}
	if u.ChangesetsCount != nil {
		b.put("changesets", countObj("count", u.ChangesetsCount))
	}
	if u.TracesCount != nil {
		b.put("traces", countObj("count", u.TracesCount))
	}
	if u.Home {
		b.put("home", Object{{"lat", u.HomeLat.value()}, {"lon", u.HomeLon.value()}, {"zoom", Int(u.HomeZoom)}})
	}
	if u.HasLanguages {
		a := Array{}
		for _, l := range u.Languages {
			a = append(a, String(l))
		}
		b.put("languages", a)
	}
	if u.BlocksCount != nil || u.BlocksActive != nil {
		rb := &objb{}
		rb.int("count", u.BlocksCount)
		rb.int("active", u.BlocksActive)
		b.put("blocks", Object{{"received", rb.o}})
	}
	if u.MsgRecvCount != nil || u.MsgRecvUnread != nil || u.MsgSentCount != nil {
		mb := &objb{}
		if u.MsgRecvCount != nil || u.MsgRecvUnread != nil {
			rb := &objb{}
			rb.int("count", u.MsgRecvCount)
			rb.int("unread", u.MsgRecvUnread)
			mb.put("received", rb.o)
		}
		if u.MsgSentCount != nil {
			mb.put("sent", countObj("count", u.MsgSentCount))
		}
		b.put("messages", mb.o)
	}
	b.time("created_at", u.CreatedAt)
	b.extra(u.Extra)
	return b.o
}

// Object renders the unknown element.
func (u *Unknown) Object() Object {
	return append(Object{{"type", String(u.Type)}}, u.Body...)
}

// Value renders the whole document.
func (d *Doc) Value() Value {
	b := &objb{}
	switch d.VersionKind {
	case VersionNumber:
		b.put("version", Number(d.Version))
	case VersionString:
		b.put("version", String(d.Version))
	case VersionNull:
		b.put("version", Null{})
	}
	b.str("generator", d.Generator)
	b.str("copyright", d.Copyright)
	b.str("attribution", d.Attribution)
	b.str("license", d.License)
	if d.Bounds != nil {
		b.put("bounds", d.Bounds.Value())
	}
	b.extra(d.Extra)
	if !d.NoElements {
		a := Array{}
		for _, e := range d.Elements {
			a = append(a, e.Object())
		}
		b.put("elements", a)
	}
	return b.o
}

// ChangeDoc is the JSON form of an osmChange as this library writes it: top-level
// attributes plus create / modify / delete blocks that are osmjson documents.
type ChangeDoc struct {
	Version     *string
	Generator   *string
	Copyright   *string
	Attribution *string
	License     *string
	Create      *Doc
	Modify      *Doc
	Delete      *Doc
	Extra       Object
}

// Value renders the change document.
func (c *ChangeDoc) Value() Value {
	b := &objb{}
	b.str("version", c.Version)
	b.str("generator", c.Generator)
	b.str("copyright", c.Copyright)
	b.str("attribution", c.Attribution)
	b.str("license", c.License)
	if c.Create != nil {
		b.put("create", c.Create.Value())
	}
	if c.Modify != nil {
		b.put("modify", c.Modify.Value())
	}
	if c.Delete != nil {
		b.put("delete", c.Delete.Value())
	}
	b.extra(c.Extra)
	return b.o
}
