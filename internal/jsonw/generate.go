package jsonw

import (
	"fmt"
	"math"
	"sort"

	"verif/internal/gen"
)

// Presence decides, per optional part of the format, whether it is written.
type Presence interface{ Has(field string) bool }

// Random writes each optional part with probability P.
type Random struct {
	R *gen.R
	P float64
}

// Has implements Presence.
func (p Random) Has(string) bool { return p.R.Chance(p.P) }

// Fixed writes exactly the listed parts (Invert: all but the listed ones) and records every
// part it was asked about.
type Fixed struct {
	Set    map[string]bool
	Invert bool
	Asked  map[string]bool
}

// Has implements Presence.
func (p *Fixed) Has(f string) bool {
	if p.Asked == nil {
		p.Asked = map[string]bool{}
	}
	p.Asked[f] = true
	return p.Set[f] != p.Invert
}

// AskedSorted lists the recorded part names.
func (p *Fixed) AskedSorted() []string {
	var out []string
	for k := range p.Asked {
		out = append(out, k)
	}
	sort.Strings(out)
	return out
}

// Gen generates models. Sizes are upper bounds for lists.
type Gen struct {
	R       *gen.R
	P       Presence
	MaxTags int
	MaxList int  // way nodes, members, comments, updates
	Unknown bool // add unknown keys
	Exotic  bool // ids beyond 2^40 / negative ids, odd floats, control characters
	// ZeroP is the probability with which a value that is written is a boundary value: id,
	// count, version or coordinate 0, empty string, empty list, bounds object without members.
	ZeroP float64
	// NullTopP / NullElemP: probability with which an absent optional member of the document's
	// top level / of an element is written as null (see DocNulls). NullOnly restricts this to
	// one member, named "<class>.<key>" ("doc.generator", "way.nodes", "member.role", ...).
	NullTopP, NullElemP float64
	NullOnly            string
	usedKeys            int
}

// NewGen returns a generator with default bounds.
func NewGen(r *gen.R, p Presence) *Gen {
	return &Gen{R: r, P: p, MaxTags: 5, MaxList: 6, Unknown: true}
}

func (g *Gen) has(f string) bool { return g.P.Has(f) }

// zero says whether the next written value is to be a boundary (zero / empty) value.
func (g *Gen) zero() bool { return g.ZeroP > 0 && g.R.Chance(g.ZeroP) }

// count is a list length in 0..max (0 when a boundary value is due).
func (g *Gen) count(max int) int {
	if g.zero() {
		return 0
	}
	return g.R.Intn(max + 1)
}

var oddRunes = []rune{0x00, 0x01, 0x1f, 0x7f, 0x2028, 0x2029, 0xfeff, 0xfffd, '\b', '\f'}

// Str is a valid UTF-8 string, sometimes with tab / newline and (Exotic) control characters.
func (g *Gen) Str(max int) string {
	if g.zero() {
		return ""
	}
	s := g.R.StrWS(max)
	if g.Exotic && g.R.Chance(0.15) {
		rs := []rune(s)
		at := g.R.Intn(len(rs) + 1)
		rs = append(rs[:at:at], append([]rune{oddRunes[g.R.Intn(len(oddRunes))]}, rs[at:]...)...)
		s = string(rs)
	}
	return s
}

func (g *Gen) strp(max int) *string { s := g.Str(max); return &s }

// ID is an object id: mostly realistic, sometimes 0, negative (editor placeholders) or huge.
func (g *Gen) ID() int64 {
	if g.zero() {
		return 0
	}
	switch x := g.R.Intn(20); {
	case x == 0:
		return g.R.Int64Range(0, 3)
	case x == 1 && g.Exotic:
		return -g.R.Int64Range(1, 1<<20)
	case x == 2 && g.Exotic:
		return g.R.Int64Range(1<<40, 1<<62)
	case x < 8:
		return g.R.Int64Range(1, 1000)
	}
	return g.R.Int64Range(1, 1<<34)
}

func (g *Gen) intp(lo, hi int64) *int64 {
	v := g.R.Int64Range(lo, hi)
	if lo <= 0 && g.zero() {
		v = 0
	}
	return &v
}
func (g *Gen) boolp() *bool { v := g.R.Bool(); return &v }

// Coord is a latitude / longitude style float with a random equivalent spelling.
func (g *Gen) Coord(lim int) Float {
	var v float64
	switch x := g.R.Intn(12); {
	case x == 0 || g.zero():
		v = 0
	case x == 1:
		v = float64(g.R.Range(-lim, lim))
	case x == 2 && g.Exotic:
		v = (g.R.Float64()*2 - 1) * float64(lim) // full 53-bit mantissa
	case x == 3 && g.Exotic:
		v = math.Ldexp(g.R.Float64(), -g.R.Range(20, 60)) // tiny
	default:
		v = g.R.Coord(lim)
	}
	if v == 0 {
		v = 0 // no negative zero
	}
	return NewFloat(v, g.R.Intn(5))
}

func (g *Gen) coordp(lim int) *Float { f := g.Coord(lim); return &f }

// Time is an instant, with or without fraction, spelled in UTC or with an offset.
func (g *Gen) Time() Time {
	t := Time{T: g.R.Time()}
	if g.R.Chance(0.3) {
		t.T = g.R.TimeNanos()
	}
	if g.R.Chance(0.25) {
		t.Offset = g.R.Pick(60, 120, -300, 330, 345, -570, 840, -720, 540, -330)
	}
	return t
}

func (g *Gen) timep() *Time { t := g.Time(); return &t }

var tagKeys = []string{"name", "highway", "type", "id", "nodes", "members", "tags", "ref", "addr:street", "source", "version", "lat", "role", "building", "natural", "note"}

// Tags is a list of 0..MaxTags tags with unique keys.
func (g *Gen) Tags() []Tag {
	n := g.count(g.MaxTags)
	seen := map[string]bool{}
	var out []Tag
	for len(out) < n {
		var k string
		switch x := g.R.Intn(10); {
		case x < 5:
			k = tagKeys[g.R.Intn(len(tagKeys))]
		case x == 5 && g.Exotic:
			k = ""
		default:
			k = g.Str(8)
		}
		if seen[k] {
			k = fmt.Sprintf("%s_%d", k, len(out))
			if seen[k] {
				continue
			}
		}
		seen[k] = true
		out = append(out, Tag{k, g.Str(12)})
	}
	return out
}

var safeUnknown = []string{"geometry", "center", "osm3s", "remark", "pivot", "@id", "timestamp_osm_base", "count_total", "x-note"}

// anyValue is an arbitrary JSON value of bounded depth.
func (g *Gen) anyValue(depth int) Value {
	top := 7
	if depth <= 0 {
		top = 5
	}
	switch g.R.Intn(top) {
	case 0:
		return Null{}
	case 1:
		return Bool(g.R.Bool())
	case 2:
		return Int(g.R.Int64Range(-1000, 1<<40))
	case 3:
		return g.Coord(180).value()
	case 4:
		return String(g.Str(10))
	case 5:
		a := Array{}
		for i, n := 0, g.R.Intn(4); i < n; i++ {
			a = append(a, g.anyValue(depth-1))
		}
		return a
	}
	o := Object{}
	for i, n := 0, g.R.Intn(4); i < n; i++ {
		o = append(o, Field{fmt.Sprintf("k%d%s", i, g.R.Word()), g.anyValue(depth - 1)})
	}
	return o
}

// Extra is 0..3 unknown members whose keys cannot be mistaken (not even ignoring case) for a
// key of the format. where names the optional part ("node.unknown", ...).
func (g *Gen) Extra(where string) Object {
	if !g.Unknown || !g.has(where) {
		return nil
	}
	var o Object
	seen := map[string]bool{}
	for i, n := 0, g.R.Range(1, 3); i < n; i++ {
		var k string
		if g.R.Bool() {
			k = safeUnknown[g.R.Intn(len(safeUnknown))]
		} else {
			g.usedKeys++
			k = fmt.Sprintf("x_%s%d", g.R.Word(), g.usedKeys)
		}
		if seen[k] {
			continue
		}
		seen[k] = true
		var v Value
		switch k {
		case "geometry":
			a := Array{}
			for j, m := 0, g.R.Intn(4); j < m; j++ {
				if g.R.Chance(0.15) {
					a = append(a, Null{})
				} else {
					a = append(a, Object{{"lat", g.Coord(90).value()}, {"lon", g.Coord(180).value()}})
				}
			}
			v = a
		case "center":
			v = Object{{"lat", g.Coord(90).value()}, {"lon", g.Coord(180).value()}}
		case "osm3s":
			v = Object{{"timestamp_osm_base", g.Time().value()}, {"copyright", String("The data included in this document is from www.openstreetmap.org.")}}
		default:
			v = g.anyValue(2)
		}
		o = append(o, Field{k, v})
	}
	return o
}

func (g *Gen) meta(kind string) Meta {
	m := Meta{}
	if g.has(kind + ".user") {
		m.User = g.strp(10)
	}
	if g.has(kind + ".uid") {
		m.UID = g.intp(0, 1<<24)
	}
	if g.has(kind + ".visible") {
		m.Visible = g.boolp()
	}
	if g.has(kind + ".version") {
		m.Version = g.intp(0, 70000)
	}
	if g.has(kind + ".changeset") {
		m.Changeset = g.intp(0, 1<<31)
	}
	if g.has(kind + ".timestamp") {
		m.Timestamp = g.timep()
	}
	if g.has(kind + ".committed") {
		m.Committed = g.timep()
	}
	if g.has(kind + ".tags") {
		m.HasTags = true
		m.Tags = g.Tags()
	}
	m.Extra = g.Extra(kind + ".unknown")
	return m
}

// Bounds generates a bounds object for the named part.
func (g *Gen) Bounds(part string) *Bounds {
	b := &Bounds{MinLat: g.Coord(90), MaxLat: g.Coord(90), MinLon: g.Coord(180), MaxLon: g.Coord(180), LowerKeys: g.R.Bool()}
	if g.ZeroP > 0 {
		// boundary spellings: members left out (their value is then 0), down to "bounds": {}
		all := g.zero()
		for i, f := range []*Float{&b.MinLat, &b.MaxLat, &b.MinLon, &b.MaxLon} {
			if all || g.R.Chance(g.ZeroP/3) {
				b.Omit[i] = true
				*f = NewFloat(0, 0)
			}
		}
	}
	b.Extra = g.Extra(part + ".unknown")
	return b
}

func (g *Gen) updates(kind string) []Update {
	if !g.has(kind + ".updates") {
		return nil
	}
	us := []Update{}
	n := g.R.Range(1, g.MaxList)
	if g.zero() {
		n = 0 // "updates": []
	}
	for i := 0; i < n; i++ {
		u := Update{Index: g.R.Int64Range(0, 50), Version: g.R.Int64Range(0, 500), Timestamp: g.Time()}
		if g.has("update.changeset") {
			u.Changeset = g.intp(0, 1<<31)
		}
		if g.has("update.latlon") {
			u.Lat, u.Lon = g.coordp(90), g.coordp(180)
		}
		if g.has("update.reverse") {
			u.Reverse = g.boolp()
		}
		u.Extra = g.Extra("update.unknown")
		us = append(us, u)
	}
	return us
}

func (g *Gen) ids() []int64 {
	n := g.count(g.MaxList)
	ids := make([]int64, 0, n)
	for i := 0; i < n; i++ {
		ids = append(ids, g.ID())
	}
	if n > 2 && g.R.Bool() {
		ids[n-1] = ids[0] // closed ring
	}
	return ids
}

// Node generates a node.
func (g *Gen) Node() *Node {
	n := &Node{ID: g.ID()}
	if g.has("node.latlon") {
		n.Lat, n.Lon = g.coordp(90), g.coordp(180)
	}
	n.Meta = g.meta("node")
	return n
}

// Way generates a way.
func (g *Gen) Way() *Way {
	w := &Way{ID: g.ID()}
	w.Meta = g.meta("way")
	if g.has("way.nodes") {
		w.HasNodes = true
		w.Nodes = g.ids()
	}
	w.Updates = g.updates("way")
	if g.has("way.bounds") {
		w.Bounds = g.Bounds("way.bounds")
	}
	return w
}

var roles = []string{"", "outer", "inner", "stop", "platform", "from", "via", "to"}

// Member generates a relation member.
func (g *Gen) Member() Member {
	m := Member{Type: g.R.PickS("node", "way", "relation"), Ref: g.ID()}
	if g.has("member.role") {
		if g.R.Bool() {
			r := roles[g.R.Intn(len(roles))]
			m.Role = &r
		} else {
			m.Role = g.strp(8)
		}
	}
	if g.has("member.version") {
		m.Version = g.intp(0, 70000)
	}
	if g.has("member.changeset") {
		m.Changeset = g.intp(0, 1<<31)
	}
	if g.has("member.latlon") {
		m.Lat, m.Lon = g.coordp(90), g.coordp(180)
	}
	if g.has("member.orientation") {
		o := int64(g.R.Pick(-1, 0, 1))
		m.Orientation = &o
	}
	if g.has("member.nodes") {
		m.HasNodes = true
		m.Nodes = g.ids()
	}
	m.Extra = g.Extra("member.unknown")
	return m
}

// Relation generates a relation.
func (g *Gen) Relation() *Relation {
	r := &Relation{ID: g.ID()}
	r.Meta = g.meta("relation")
	if g.has("relation.members") {
		r.HasMembers = true
		for i, n := 0, g.count(g.MaxList); i < n; i++ {
			r.Members = append(r.Members, g.Member())
		}
	}
	r.Updates = g.updates("relation")
	if g.has("relation.bounds") {
		r.Bounds = g.Bounds("relation.bounds")
	}
	return r
}

// Changeset generates a changeset.
func (g *Gen) Changeset() *Changeset {
	c := &Changeset{ID: g.ID()}
	if g.has("changeset.user") {
		c.User = g.strp(10)
	}
	if g.has("changeset.uid") {
		c.UID = g.intp(0, 1<<24)
	}
	if g.has("changeset.created_at") {
		c.CreatedAt = g.timep()
	}
	if g.has("changeset.closed_at") {
		c.ClosedAt = g.timep()
	}
	if g.has("changeset.open") {
		c.Open = g.boolp()
	}
	if g.has("changeset.num_changes") {
		c.NumChanges = g.intp(0, 50000)
	}
	if g.has("changeset.bbox") {
		c.MinLat, c.MaxLat, c.MinLon, c.MaxLon = g.coordp(90), g.coordp(90), g.coordp(180), g.coordp(180)
	}
	if g.has("changeset.comments_count") {
		c.CommentsCount = g.intp(0, 100)
	}
	if g.has("changeset.tags") {
		c.HasTags = true
		c.Tags = g.Tags()
	}
	if g.has("changeset.discussion") {
		c.HasDiscussion = true
		c.DiscussionBare = g.zero()
		for i, n := 0, g.count(g.MaxList); i < n && !c.DiscussionBare; i++ {
			cm := Comment{}
			if g.has("cscomment.user") {
				cm.User = g.strp(10)
			}
			if g.has("cscomment.uid") {
				cm.UID = g.intp(0, 1<<24)
			}
			if g.has("cscomment.date") {
				cm.Date = g.timep()
			}
			if g.has("cscomment.text") {
				cm.Text = g.strp(20)
			}
			cm.Extra = g.Extra("cscomment.unknown")
			c.Comments = append(c.Comments, cm)
		}
	}
	c.Extra = g.Extra("changeset.unknown")
	return c
}

// Note generates a note.
func (g *Gen) Note() *Note {
	n := &Note{ID: g.ID()}
	if g.has("note.latlon") {
		n.Lat, n.Lon = g.coordp(90), g.coordp(180)
	}
	if g.has("note.url") {
		n.URL = g.strp(12)
	}
	if g.has("note.comment_url") {
		n.CommentURL = g.strp(12)
	}
	if g.has("note.close_url") {
		n.CloseURL = g.strp(12)
	}
	if g.has("note.reopen_url") {
		n.ReopenURL = g.strp(12)
	}
	if g.has("note.date_created") {
		if g.R.Chance(0.2) {
			n.DateCreatedNull = true
		} else {
			n.DateCreated = g.timep()
		}
	}
	if g.has("note.date_closed") {
		if g.R.Chance(0.3) {
			n.DateClosedNull = true
		} else {
			n.DateClosed = g.timep()
		}
	}
	if g.has("note.status") {
		s := g.R.PickS("open", "closed", "hidden")
		n.Status = &s
	}
	if g.has("note.comments") {
		n.HasComments = true
		for i, m := 0, g.count(g.MaxList); i < m; i++ {
			c := NoteComment{}
			if g.has("notecomment.date") {
				if g.R.Chance(0.2) {
					c.DateNull = true
				} else {
					c.Date = g.timep()
				}
			}
			if g.has("notecomment.uid") {
				c.UID = g.intp(0, 1<<24)
			}
			if g.has("notecomment.user") {
				c.User = g.strp(10)
			}
			if g.has("notecomment.user_url") {
				c.UserURL = g.strp(12)
			}
			if g.has("notecomment.action") {
				a := g.R.PickS("opened", "commented", "closed", "reopened")
				c.Action = &a
			}
			if g.has("notecomment.text") {
				c.Text = g.strp(20)
			}
			if g.has("notecomment.html") {
				h := "<p>" + g.Str(10) + "</p>"
				c.HTML = &h
			}
			c.Extra = g.Extra("notecomment.unknown")
			n.Comments = append(n.Comments, c)
		}
	}
	n.Extra = g.Extra("note.unknown")
	return n
}

// User generates a user.
func (g *Gen) User() *User {
	u := &User{ID: g.ID()}
	if g.has("user.name") {
		u.Name = g.strp(10)
	}
	if g.has("user.description") {
		u.Description = g.strp(30)
	}
	if g.has("user.img") {
		u.ImgHref = g.strp(16)
	}
	if g.has("user.changesets") {
		u.ChangesetsCount = g.intp(0, 100000)
	}
	if g.has("user.traces") {
		u.TracesCount = g.intp(0, 1000)
	}
	if g.has("user.home") {
		u.Home = true
		u.HomeLat, u.HomeLon, u.HomeZoom = g.Coord(90), g.Coord(180), g.R.Int64Range(0, 19)
	}
	if g.has("user.languages") {
		u.HasLanguages = true
		for i, n := 0, g.count(3); i < n; i++ {
			u.Languages = append(u.Languages, g.R.PickS("en", "de", "en-US", "fr", "pt-BR", "zh"))
		}
	}
	if g.has("user.blocks") {
		u.BlocksCount, u.BlocksActive = g.intp(0, 10), g.intp(0, 3)
	}
	if g.has("user.messages") {
		u.MsgRecvCount, u.MsgRecvUnread, u.MsgSentCount = g.intp(0, 500), g.intp(0, 50), g.intp(0, 500)
	}
	if g.has("user.created_at") {
		u.CreatedAt = g.timep()
	}
	u.Extra = g.Extra("user.unknown")
	return u
}

// Kinds lists the element kinds this library knows, in the order used for kind masks.
var Kinds = []string{"node", "way", "relation", "changeset", "note", "user"}

// Element generates an element of the named kind.
func (g *Gen) Element(kind string) Element {
	switch kind {
	case "node":
		return g.Node()
	case "way":
		return g.Way()
	case "relation":
		return g.Relation()
	case "changeset":
		return g.Changeset()
	case "note":
		return g.Note()
	case "user":
		return g.User()
	}
	panic("jsonw: kind " + kind)
}

// versionNumbers are number literals whose float64 value prints back as the same text, so
// that every JSON decoder configuration (float64 or literal-preserving) agrees on the text.
var versionNumbers = []string{"0.6", "0.7", "1", "2", "0.61", "1.5", "12", "0.5", "3.25"}

// Top fills the top-level attributes of d.
func (g *Gen) Top(d *Doc) {
	if g.has("doc.version") {
		switch g.R.Intn(2) {
		case 0:
			d.VersionKind, d.Version = VersionNumber, versionNumbers[g.R.Intn(len(versionNumbers))]
		default:
			d.VersionKind = VersionString
			if g.R.Chance(0.8) {
				d.Version = g.R.PickS("0.6", "0.7", "1", "0.60")
			} else {
				d.Version = g.Str(6)
			}
		}
	}
	if g.has("doc.generator") {
		s := g.R.PickS("Overpass API 0.7.56.3 eb200aeb", "CGImap 0.8.3 (1234 host)", g.Str(16))
		d.Generator = &s
	}
	if g.has("doc.copyright") {
		s := g.R.PickS("OpenStreetMap and contributors", g.Str(16))
		d.Copyright = &s
	}
	if g.has("doc.attribution") {
		s := g.R.PickS("http://www.openstreetmap.org/copyright", g.Str(16))
		d.Attribution = &s
	}
	if g.has("doc.license") {
		s := g.R.PickS("http://opendatacommons.org/licenses/odbl/1-0/", g.Str(16))
		d.License = &s
	}
	if g.has("doc.bounds") {
		d.Bounds = g.Bounds("doc.bounds")
		d.Bounds.LowerKeys = true // the OSM API spelling
	}
	d.Extra = g.Extra("doc.unknown")
}

// Doc generates a document with nElem elements drawn from the kinds in mask (bit i = Kinds[i]).
func (g *Gen) Doc(nElem int, mask int) *Doc {
	d := &Doc{}
	g.Top(d)
	var kinds []string
	for i, k := range Kinds {
		if mask&(1<<uint(i)) != 0 {
			kinds = append(kinds, k)
		}
	}
	for i := 0; i < nElem && len(kinds) > 0; i++ {
		d.Elements = append(d.Elements, g.Element(kinds[g.R.Intn(len(kinds))]))
	}
	g.DocNulls(d)
	return d
}

// ChangeDoc generates a change document whose blocks are small documents.
func (g *Gen) ChangeDoc(nElem int) *ChangeDoc {
	c := &ChangeDoc{}
	if g.has("change.version") {
		s := g.R.PickS("0.6", "0.7")
		c.Version = &s
	}
	if g.has("change.generator") {
		c.Generator = g.strp(12)
	}
	if g.has("change.copyright") {
		c.Copyright = g.strp(12)
	}
	if g.has("change.attribution") {
		c.Attribution = g.strp(12)
	}
	if g.has("change.license") {
		c.License = g.strp(12)
	}
	block := func(name string) *Doc {
		if !g.has("change." + name) {
			return nil
		}
		return g.Doc(g.R.Intn(nElem+1), 7)
	}
	c.Create, c.Modify, c.Delete = block("create"), block("modify"), block("delete")
	c.Extra = g.Extra("change.unknown")
	return c
}

// ---------------------------------------------------------------------------------------
// null: the third state of an optional member (absent / present / null). JavaScript and
// Python writers serialise a missing value as null. A nulled member is absent in the model
// (so it denotes the zero value) and is written as `"key": null`.

// nulls returns null members for those of the absent keys that the generator picks, and
// records them as "<class>.<key>" in *log.
func (g *Gen) nulls(p float64, only string, cls string, log *[]string, absent ...string) Object {
	if p <= 0 {
		return nil
	}
	var o Object
	for _, k := range absent {
		if k == "" || (only != "" && only != cls+"."+k) {
			continue
		}
		if g.R.Chance(p) {
			o = append(o, Field{k, Null{}})
			*log = append(*log, cls+"."+k)
		}
	}
	return o
}

func ifNil(absent bool, key string) string {
	if absent {
		return key
	}
	return ""
}

func (g *Gen) metaNulls(kind string, m *Meta) []string {
	return []string{ifNil(m.User == nil, "user"), ifNil(m.UID == nil, "uid"), ifNil(m.Visible == nil, "visible"),
		ifNil(m.Version == nil, "version"), ifNil(m.Changeset == nil, "changeset"), ifNil(m.Timestamp == nil, "timestamp"),
		ifNil(m.Committed == nil, "committed"), ifNil(!m.HasTags, "tags")}
}

// ElementNulls adds null members to an element (probability NullElemP per absent member,
// restricted to NullOnly when set) and returns their names.
func (g *Gen) ElementNulls(e Element) []string {
	var log []string
	p, only := g.NullElemP, g.NullOnly
	switch x := e.(type) {
	case *Node:
		ks := append(g.metaNulls("node", &x.Meta), ifNil(x.Lat == nil, "lat"), ifNil(x.Lon == nil, "lon"))
		x.Extra = append(x.Extra, g.nulls(p, only, "node", &log, ks...)...)
	case *Way:
		ks := append(g.metaNulls("way", &x.Meta), ifNil(!x.HasNodes, "nodes"), ifNil(x.Updates == nil, "updates"), ifNil(x.Bounds == nil, "bounds"))
		x.Extra = append(x.Extra, g.nulls(p, only, "way", &log, ks...)...)
	case *Relation:
		ks := append(g.metaNulls("relation", &x.Meta), ifNil(!x.HasMembers, "members"), ifNil(x.Updates == nil, "updates"), ifNil(x.Bounds == nil, "bounds"))
		x.Extra = append(x.Extra, g.nulls(p, only, "relation", &log, ks...)...)
		for i := range x.Members {
			m := &x.Members[i]
			m.Extra = append(m.Extra, g.nulls(p, only, "member", &log, ifNil(m.Role == nil, "role"), ifNil(m.Version == nil, "version"),
				ifNil(m.Changeset == nil, "changeset"), ifNil(m.Lat == nil, "lat"), ifNil(m.Lon == nil, "lon"),
				ifNil(m.Orientation == nil, "orientation"), ifNil(!m.HasNodes, "nodes"))...)
		}
	case *Changeset:
		x.Extra = append(x.Extra, g.nulls(p, only, "changeset", &log, ifNil(x.User == nil, "user"), ifNil(x.UID == nil, "uid"),
			ifNil(x.CreatedAt == nil, "created_at"), ifNil(x.ClosedAt == nil, "closed_at"), ifNil(x.Open == nil, "open"),
			ifNil(x.NumChanges == nil, "num_changes"), ifNil(x.MinLat == nil, "min_lat"), ifNil(x.MaxLat == nil, "max_lat"),
			ifNil(x.MinLon == nil, "min_lon"), ifNil(x.MaxLon == nil, "max_lon"), ifNil(x.CommentsCount == nil, "comments_count"),
			ifNil(!x.HasTags, "tags"), ifNil(!x.HasDiscussion, "discussion"))...)
	case *Note:
		x.Extra = append(x.Extra, g.nulls(p, only, "note", &log, ifNil(x.Lat == nil, "lat"), ifNil(x.Lon == nil, "lon"),
			ifNil(x.URL == nil, "url"), ifNil(x.CommentURL == nil, "comment_url"), ifNil(x.CloseURL == nil, "close_url"),
			ifNil(x.ReopenURL == nil, "reopen_url"), ifNil(x.Status == nil, "status"), ifNil(!x.HasComments, "comments"))...)
	case *User:
		x.Extra = append(x.Extra, g.nulls(p, only, "user", &log, ifNil(x.Name == nil, "name"), ifNil(x.Description == nil, "description"),
			ifNil(x.ImgHref == nil, "img"), ifNil(x.ChangesetsCount == nil, "changesets"), ifNil(x.TracesCount == nil, "traces"),
			ifNil(!x.Home, "home"), ifNil(!x.HasLanguages, "languages"), ifNil(x.BlocksCount == nil && x.BlocksActive == nil, "blocks"),
			ifNil(x.MsgRecvCount == nil && x.MsgRecvUnread == nil && x.MsgSentCount == nil, "messages"), ifNil(x.CreatedAt == nil, "created_at"))...)
	}
	return log
}

// DocNulls adds null members at the top level of d (probability NullTopP per absent member,
// restricted to NullOnly when set), and to its elements; the names go to d.NullTop / d.NullElem.
func (g *Gen) DocNulls(d *Doc) {
	if g.NullTopP > 0 {
		var log []string
		o := g.nulls(g.NullTopP, g.NullOnly, "doc", &log, ifNil(d.VersionKind == VersionAbsent, "version"), ifNil(d.Generator == nil, "generator"),
			ifNil(d.Copyright == nil, "copyright"), ifNil(d.Attribution == nil, "attribution"), ifNil(d.License == nil, "license"),
			ifNil(d.Bounds == nil, "bounds"))
		for _, f := range o {
			if f.Key == "version" {
				d.VersionKind = VersionNull
			} else {
				d.Extra = append(d.Extra, f)
			}
		}
		d.NullTop = append(d.NullTop, log...)
	}
	if g.NullElemP > 0 {
		if d.NoElements && (g.NullOnly == "" || g.NullOnly == "doc.elements") && g.R.Chance(g.NullElemP) {
			d.Extra = append(d.Extra, Field{"elements", Null{}})
			d.NullElem = append(d.NullElem, "doc.elements")
		}
		for _, e := range d.Elements {
			d.NullElem = append(d.NullElem, g.ElementNulls(e)...)
		}
	}
}
