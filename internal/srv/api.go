// Package srv holds the fake servers the checks talk to. This file: a fake OSM API v0.6
// server on net/http/httptest. It answers every request with the currently configured status
// and body and logs method, host, raw path and raw query of every request together with a
// sequence number taken from a mon.Log that is shared with the rate-limiter monitor, so that
// "Wait happened before the request" is decided by comparing sequence numbers, never clocks.
package srv

import (
	"context"
	"net"
	"net/http"
	"net/http/httptest"
	"strings"
	"sync"

	"verif/internal/mon"
)

// APIRequest is one request as the server saw it.
type APIRequest struct {
	Seq      int64  `json:"seq"`
	Method   string `json:"method"`
	Host     string `json:"host"`
	RawPath  string `json:"path"`  // request-URI up to '?', exactly as sent
	RawQuery string `json:"query"` // request-URI after the first '?', exactly as sent
	HasQuery bool   `json:"has_query"`
	Budget   bool   `json:"over_budget,omitempty"`
}

// API is the fake API server.
type API struct {
	Log *mon.Log
	ts  *httptest.Server

	mu      sync.Mutex
	reqs    []APIRequest
	status  int
	ctype   string
	body    []byte
	served  int // requests answered since the last Respond
	budget  int
	clients []*http.Transport
}

// NewAPI starts a server whose request log shares log's sequence counter.
func NewAPI(log *mon.Log) *API {
	a := &API{Log: log, status: 200, budget: 16}
	a.ts = httptest.NewServer(http.HandlerFunc(a.handle))
	return a
}

func (a *API) handle(w http.ResponseWriter, r *http.Request) {
	seq := a.Log.Add("request", 0, 0)
	uri := r.RequestURI
	rq := APIRequest{Seq: seq, Method: r.Method, Host: r.Host, RawPath: uri}
	if i := strings.IndexByte(uri, '?'); i >= 0 {
		rq.RawPath, rq.RawQuery, rq.HasQuery = uri[:i], uri[i+1:], true
	}
	a.mu.Lock()
	a.served++
	over := a.served > a.budget
	rq.Budget = over
	a.reqs = append(a.reqs, rq)
	status, ctype, body := a.status, a.ctype, a.body
	a.mu.Unlock()
	if over {
		// logical request budget: a retry loop becomes a counted, deterministic failure
		http.Error(w, "verif: request budget exhausted", http.StatusInternalServerError)
		return
	}
	if ctype != "" {
		w.Header().Set("Content-Type", ctype)
	}
	w.WriteHeader(status)
	if len(body) > 0 && status != http.StatusNoContent && status != http.StatusNotModified {
		w.Write(body)
	}
}

// URL is the server's root URL (no trailing slash).
func (a *API) URL() string { return a.ts.URL }

// HostPort is the server's listen address.
func (a *API) HostPort() string { return a.ts.Listener.Addr().String() }

// Respond configures the answer to all following requests and resets the request budget.
func (a *API) Respond(status int, ctype string, body []byte) {
	a.mu.Lock()
	a.status, a.ctype, a.body, a.served = status, ctype, body, 0
	a.mu.Unlock()
}

// Take returns the requests logged since the previous Take.
func (a *API) Take() []APIRequest {
	a.mu.Lock()
	defer a.mu.Unlock()
	out := a.reqs
	a.reqs = nil
	return out
}

// Client returns an http.Client whose connections always end at this server, whatever host
// the URL names; the Host header still carries the URL's host, so the server log shows which
// host the library addressed (used for the default base URL).
func (a *API) Client() *http.Client {
	addr := a.HostPort()
	dial := func(ctx context.Context, network, _ string) (net.Conn, error) {
		var d net.Dialer
		return d.DialContext(ctx, "tcp", addr)
	}
	// DialTLSContext hands out the same plain connection ("already past the handshake"), so a
	// base URL with the https scheme reaches the server as well.
	tr := &http.Transport{DialContext: dial, DialTLSContext: dial, MaxIdleConnsPerHost: 4}
	a.mu.Lock()
	a.clients = append(a.clients, tr)
	a.mu.Unlock()
	return &http.Client{
		Transport: tr,
		// a redirect would be a second request; never follow silently
		CheckRedirect: func(*http.Request, []*http.Request) error { return http.ErrUseLastResponse },
	}
}

// Close shuts the server and the clients' idle connections down.
func (a *API) Close() {
	a.mu.Lock()
	cl := a.clients
	a.clients = nil
	a.mu.Unlock()
	for _, tr := range cl {
		tr.CloseIdleConnections()
	}
	a.ts.Close()
}

// APILimiter is a monitored osmapi.RateLimiter: every Wait is logged with a sequence number from
// the shared log; Err (if set) is returned from Wait.
type APILimiter struct {
	Log *mon.Log
	Err error

	mu    sync.Mutex
	waits []int64
	nilCx int
}

// Wait implements osmapi.RateLimiter.
func (l *APILimiter) Wait(ctx context.Context) error {
	seq := l.Log.Add("wait", 0, 0)
	l.mu.Lock()
	l.waits = append(l.waits, seq)
	if ctx == nil {
		l.nilCx++
	}
	l.mu.Unlock()
	return l.Err
}

// Take returns the sequence numbers of the Wait calls since the previous Take.
func (l *APILimiter) Take() []int64 {
	l.mu.Lock()
	defer l.mu.Unlock()
	out := l.waits
	l.waits = nil
	return out
}
