// Package srv holds the fake servers the checks talk to. This file: a fake OSM API v0.6
// server on net/http/httptest. It answers every request with the currently configured status
// and body and logs method, host, raw path and raw query of every request together with a
// sequence number taken from a mon.Log that is shared with the rate-limiter monitor, so that
// "Wait happened before the request" is decided by comparing sequence numbers, never clocks.
package srv

import (
	"bufio"
	"bytes"
	"compress/gzip"
	"compress/zlib"
	"context"
	"fmt"
	"io"
	"net"
	"net/http"
	"net/http/httptest"
	"os"
	"strconv"
	"strings"
	"sync"
	"syscall"

	"verif/internal/mon"
)

// APIRequest is one request as the server saw it.
type APIRequest struct {
	Seq      int64  `json:"seq"`
	Method   string `json:"method"`
	Host     string `json:"host"`
	RawPath  string `json:"path"`  // request-URI up to '?', exactly as sent
	RawQuery string `json:"query"` // request-URI after the first '?', exactly as sent
	HasQuery bool   `json:"has_query"`
	Budget   bool   `json:"over_budget,omitempty"`
	// AcceptEncoding is the request's Accept-Encoding header ("" = none sent); Coding is the
	// content coding the server answered with ("" = identity).
	AcceptEncoding string `json:"accept_encoding,omitempty"`
	Coding         string `json:"content_coding,omitempty"`
}

// API is the fake API server.
type API struct {
	Log *mon.Log
	ts  *httptest.Server

	mu      sync.Mutex
	reqs    []APIRequest
	status  int
	ctype   string
	body    []byte
	hangup  string // transport-level misbehaviour instead of an answer (see Hangup)
	meta    Meta   // response metadata besides the status (see Metadata)
	stream  func(w io.Writer) error
	gate    chan struct{}
	served  int // requests answered since the last Respond
	budget  int
	clients []*http.Transport
}

// NewAPI starts a server whose request log shares log's sequence counter.
func NewAPI(log *mon.Log) *API {
	a := &API{Log: log, status: 200, budget: 16}
	a.ts = httptest.NewServer(http.HandlerFunc(a.handle))
	return a
}

func (a *API) handle(w http.ResponseWriter, r *http.Request) {
	seq := a.Log.Add("request", 0, 0)
	uri := r.RequestURI
	rq := APIRequest{Seq: seq, Method: r.Method, Host: r.Host, RawPath: uri}
	if i := strings.IndexByte(uri, '?'); i >= 0 {
		rq.RawPath, rq.RawQuery, rq.HasQuery = uri[:i], uri[i+1:], true
	}
	rq.AcceptEncoding = strings.Join(r.Header.Values("Accept-Encoding"), ", ")
	a.mu.Lock()
	a.served++
	over := a.served > a.budget
	rq.Budget = over
	status, ctype, body, hangup := a.status, a.ctype, a.body, a.hangup
	meta, stream, gate := a.meta, a.stream, a.gate
	coding := ""
	if hangup == "" && !over && stream == nil && !meta.NoBody && len(body) > 0 && status != http.StatusNoContent {
		coding = chooseCoding(meta.Coding, rq.AcceptEncoding)
	}
	rq.Coding = coding
	a.reqs = append(a.reqs, rq)
	a.mu.Unlock()
	if gate != nil {
		// hold the request (it is logged already) until the harness opens the gate or the
		// client goes away
		select {
		case <-gate:
		case <-r.Context().Done():
			return
		}
	}
	if hangup != "" && !over {
		a.hangUp(w, hangup, status, ctype, body)
		return
	}
	if over {
		// logical request budget: a retry loop becomes a counted, deterministic failure
		http.Error(w, "verif: request budget exhausted", http.StatusInternalServerError)
		return
	}
	if ctype != "" {
		w.Header().Set("Content-Type", ctype)
	}
	for k, vs := range meta.Header {
		for _, v := range vs {
			w.Header().Add(k, v)
		}
	}
	if stream != nil {
		w.WriteHeader(status)
		bw := bufio.NewWriterSize(w, 256<<10)
		if err := stream(bw); err == nil {
			bw.Flush()
		}
		return
	}
	if meta.NoBody {
		body = nil
		w.Header().Set("Content-Length", "0")
	}
	if meta.Coding != "" {
		w.Header().Add("Vary", "Accept-Encoding")
	}
	if coding != "" {
		body = encodeBody(coding, body)
		w.Header().Set("Content-Encoding", coding)
	}
	w.WriteHeader(status)
	if len(body) > 0 && status != http.StatusNoContent && status != http.StatusNotModified {
		if meta.Chunked {
			// flushing before the handler returns makes net/http use chunked transfer encoding
			half := len(body) / 2
			w.Write(body[:half])
			w.(http.Flusher).Flush()
			w.Write(body[half:])
			return
		}
		w.Write(body)
	}
}

// Meta is response metadata other than the status code: extra headers (e.g. the API's
// "Error" header, Retry-After), chunked transfer of the body, or no body at all.
type Meta struct {
	Header  http.Header
	Chunked bool
	NoBody  bool
	// Coding is the server's content-coding policy: "" never compresses; "gzip-first" and
	// "deflate-first" answer with the first coding of their preference list (gzip, deflate /
	// deflate, gzip) that the request's Accept-Encoding offers, identity when it offers
	// neither or is absent. "deflate" is the zlib format (RFC 9110 section 8.4.1.2).
	Coding string
}

// chooseCoding picks the content coding for a request under a policy.
func chooseCoding(policy, acceptEncoding string) string {
	if policy == "" || acceptEncoding == "" {
		return ""
	}
	offered := map[string]bool{}
	for _, tok := range strings.Split(acceptEncoding, ",") {
		name, params, _ := strings.Cut(strings.TrimSpace(tok), ";")
		name = strings.ToLower(strings.TrimSpace(name))
		q := strings.ReplaceAll(strings.ToLower(params), " ", "")
		if name == "" || q == "q=0" || q == "q=0.0" || q == "q=0.00" || q == "q=0.000" {
			continue
		}
		offered[name] = true
	}
	prefs := []string{"gzip", "deflate"}
	if policy == "deflate-first" {
		prefs = []string{"deflate", "gzip"}
	}
	for _, c := range prefs {
		if offered[c] || offered["*"] {
			return c
		}
	}
	return ""
}

func encodeBody(coding string, body []byte) []byte {
	var buf bytes.Buffer
	switch coding {
	case "gzip":
		zw := gzip.NewWriter(&buf)
		zw.Write(body)
		zw.Close()
	case "deflate":
		zw := zlib.NewWriter(&buf)
		zw.Write(body)
		zw.Close()
	default:
		return body
	}
	return buf.Bytes()
}

// Gate makes the server hold every request (after logging it) until Release is called; the
// harness uses it to keep concurrent calls in flight at the same time. Release opens the gate
// and removes it.
func (a *API) Gate() {
	a.mu.Lock()
	a.gate = make(chan struct{})
	a.mu.Unlock()
}

// Release lets all held requests (and all later ones) through.
func (a *API) Release() {
	a.mu.Lock()
	if a.gate != nil {
		close(a.gate)
		a.gate = nil
	}
	a.mu.Unlock()
}

// Arrived is the number of requests logged since the previous Take.
func (a *API) Arrived() int {
	a.mu.Lock()
	defer a.mu.Unlock()
	return len(a.reqs)
}

// Metadata sets the response metadata of the following answers (until the next Respond).
func (a *API) Metadata(m Meta) {
	a.mu.Lock()
	a.meta = m
	a.mu.Unlock()
}

// RespondStream is Respond with a body produced on the fly by write (large answers are never
// held in memory by the server).
func (a *API) RespondStream(status int, ctype string, write func(w io.Writer) error) {
	a.Respond(status, ctype, nil)
	a.mu.Lock()
	a.stream = write
	a.mu.Unlock()
}

// URL is the server's root URL (no trailing slash).
func (a *API) URL() string { return a.ts.URL }

// HostPort is the server's listen address.
func (a *API) HostPort() string { return a.ts.Listener.Addr().String() }

// Respond configures the answer to all following requests and resets the request budget.
func (a *API) Respond(status int, ctype string, body []byte) {
	a.mu.Lock()
	a.status, a.ctype, a.body, a.served, a.hangup = status, ctype, body, 0, ""
	a.meta, a.stream = Meta{}, nil
	a.mu.Unlock()
}

// HangupModes are the server-side transport faults: the request is read and logged, then the
// connection is closed before the status line, inside the header, or inside the body.
var HangupModes = []string{"close-before-status", "close-in-header", "close-in-body"}

// Hangup makes the server drop the connection instead of answering (until the next Respond).
// The body and content type of the last Respond are used by "close-in-body".
func (a *API) Hangup(mode string) {
	a.mu.Lock()
	a.hangup = mode
	a.mu.Unlock()
}

// BrokenBodyModes are answers whose status line and headers arrive intact (with the status of
// the last Respond) but whose body does not: "short-body" declares a Content-Length 64 bytes
// beyond what is sent before the connection is closed, "chunked-cut" sends one chunk and closes
// without the terminating chunk. Set with Hangup.
var BrokenBodyModes = []string{"short-body", "chunked-cut"}

func (a *API) hangUp(w http.ResponseWriter, mode string, status int, ctype string, body []byte) {
	hj, ok := w.(http.Hijacker)
	if !ok {
		panic("verif: response writer cannot be hijacked")
	}
	conn, _, err := hj.Hijack()
	if err != nil {
		return
	}
	defer conn.Close()
	switch mode {
	case "close-in-header":
		io.WriteString(conn, "HTTP/1.1 200 OK\r\nContent-Type: application/xml\r\nContent-Le")
	case "close-in-body":
		io.WriteString(conn, statusLine(status)+"Content-Type: "+ctype+"\r\nContent-Length: "+strconv.Itoa(len(body)+64)+"\r\n\r\n")
		conn.Write(body[:len(body)/2])
	case "short-body":
		io.WriteString(conn, statusLine(status)+"Content-Type: "+ctype+"\r\nContent-Length: "+strconv.Itoa(len(body)+64)+"\r\n\r\n")
		conn.Write(body)
	case "chunked-cut":
		io.WriteString(conn, statusLine(status)+"Content-Type: "+ctype+"\r\nTransfer-Encoding: chunked\r\n\r\n")
		if len(body) > 0 {
			io.WriteString(conn, strconv.FormatInt(int64(len(body)), 16)+"\r\n")
			conn.Write(body)
			io.WriteString(conn, "\r\n")
		}
	}
}

// Take returns the requests logged since the previous Take.
func (a *API) Take() []APIRequest {
	a.mu.Lock()
	defer a.mu.Unlock()
	out := a.reqs
	a.reqs = nil
	return out
}

// Client returns an http.Client whose connections always end at this server, whatever host
// the URL names; the Host header still carries the URL's host, so the server log shows which
// host the library addressed (used for the default base URL).
func (a *API) Client() *http.Client { return a.ClientWith(nil, false) }

// ClientWith is Client with a fault-injecting round tripper in front of the transport (nil for
// none) and optionally without connection reuse (net/http replays an idempotent request by
// itself when a *reused* connection dies before the first response byte; without reuse every
// request on the wire is one the library asked for).
func (a *API) ClientWith(ft *FaultTripper, noKeepAlive bool) *http.Client {
	return a.ClientOpts(ft, noKeepAlive, false)
}

// ClientOpts is ClientWith plus the option to switch the transport's transparent gzip off
// (Transport.DisableCompression: no Accept-Encoding is added to requests).
func (a *API) ClientOpts(ft *FaultTripper, noKeepAlive, noCompression bool) *http.Client {
	addr := a.HostPort()
	dial := func(ctx context.Context, network, _ string) (net.Conn, error) {
		var d net.Dialer
		return d.DialContext(ctx, "tcp", addr)
	}
	// DialTLSContext hands out the same plain connection ("already past the handshake"), so a
	// base URL with the https scheme reaches the server as well.
	tr := &http.Transport{DialContext: dial, DialTLSContext: dial, MaxIdleConnsPerHost: 16, DisableKeepAlives: noKeepAlive, DisableCompression: noCompression}
	a.mu.Lock()
	a.clients = append(a.clients, tr)
	a.mu.Unlock()
	var rt http.RoundTripper = tr
	if ft != nil {
		ft.Next = tr
		rt = ft
	}
	return &http.Client{
		Transport: rt,
		// a redirect would be a second request; never follow silently
		CheckRedirect: func(*http.Request, []*http.Request) error { return http.ErrUseLastResponse },
	}
}

// Close shuts the server and the clients' idle connections down.
func (a *API) Close() {
	a.mu.Lock()
	cl := a.clients
	a.clients = nil
	a.mu.Unlock()
	for _, tr := range cl {
		tr.CloseIdleConnections()
	}
	a.ts.Close()
}

// APILimiter is a monitored osmapi.RateLimiter: every Wait is logged with a sequence number from
// the shared log; Err (if set) is returned from Wait.
type APILimiter struct {
	Log *mon.Log
	Err error

	mu    sync.Mutex
	waits []int64
	nilCx int
}

// Wait implements osmapi.RateLimiter.
func (l *APILimiter) Wait(ctx context.Context) error {
	seq := l.Log.Add("wait", 0, 0)
	l.mu.Lock()
	l.waits = append(l.waits, seq)
	if ctx == nil {
		l.nilCx++
	}
	l.mu.Unlock()
	return l.Err
}

// Take returns the sequence numbers of the Wait calls since the previous Take.
func (l *APILimiter) Take() []int64 {
	l.mu.Lock()
	defer l.mu.Unlock()
	out := l.waits
	l.waits = nil
	return out
}

func statusLine(status int) string {
	return "HTTP/1.1 " + strconv.Itoa(status) + " " + http.StatusText(status) + "\r\n"
}

// FaultModes are the client-side transport faults a FaultTripper can inject: the named error
// is returned instead of a response, for the first RoundTrip after Arm only ("-once") or for
// every one ("-always").
var FaultModes = []string{"eof-once", "eof-always", "unexpected-eof-once", "reset-once", "reset-always", "epipe-once", "refused-always", "timeout-once"}

type timeoutError struct{}

func (timeoutError) Error() string   { return "verif: i/o timeout" }
func (timeoutError) Timeout() bool   { return true }
func (timeoutError) Temporary() bool { return true }

// FaultTripper is an http.RoundTripper that logs every RoundTrip (one per GET the caller of
// the http.Client asks for) with a sequence number from the shared log and can answer with a
// transport error instead of passing the request on.
type FaultTripper struct {
	Log  *mon.Log
	Next http.RoundTripper

	mu    sync.Mutex
	mode  string
	n     int
	trips []int64
}

// Arm sets the fault mode ("" = pass everything through) and restarts the per-call count.
func (f *FaultTripper) Arm(mode string) {
	f.mu.Lock()
	f.mode, f.n = mode, 0
	f.mu.Unlock()
}

// Take returns the sequence numbers of the RoundTrip calls since the previous Take.
func (f *FaultTripper) Take() []int64 {
	f.mu.Lock()
	defer f.mu.Unlock()
	out := f.trips
	f.trips = nil
	return out
}

// RoundTrip implements http.RoundTripper.
func (f *FaultTripper) RoundTrip(req *http.Request) (*http.Response, error) {
	seq := f.Log.Add("roundtrip", 0, 0)
	f.mu.Lock()
	f.trips = append(f.trips, seq)
	f.n++
	n, mode := f.n, f.mode
	f.mu.Unlock()
	if mode != "" && (n == 1 || strings.HasSuffix(mode, "-always")) {
		if req.Body != nil {
			req.Body.Close()
		}
		var cause error
		switch strings.TrimSuffix(strings.TrimSuffix(mode, "-once"), "-always") {
		case "eof":
			cause = io.EOF
		case "unexpected-eof":
			cause = io.ErrUnexpectedEOF
		case "reset":
			cause = &net.OpError{Op: "read", Net: "tcp", Err: os.NewSyscallError("read", syscall.ECONNRESET)}
		case "epipe":
			cause = &net.OpError{Op: "write", Net: "tcp", Err: os.NewSyscallError("write", syscall.EPIPE)}
		case "refused":
			cause = &net.OpError{Op: "dial", Net: "tcp", Err: os.NewSyscallError("connect", syscall.ECONNREFUSED)}
		case "timeout":
			cause = &net.OpError{Op: "read", Net: "tcp", Err: timeoutError{}}
		default:
			cause = fmt.Errorf("verif: unknown fault mode %q", mode)
		}
		return nil, fmt.Errorf("verif transport fault: %w", cause)
	}
	return f.Next.RoundTrip(req)
}
