// Package srv holds the fake servers the checks point the library's HTTP clients at.
//
// Planet is a stand-in for planet.osm.org's replication tree. It is written from the
// documented layout of the planet server (three-level zero-padded directories, Java
// properties state files with escaped colons for the minute/hour/day streams, YAML state
// files for the changeset stream), not from the library. It answers ONLY the exact
// documented paths, logs every request and enforces a logical request budget: once the
// budget of the loaded directory is used up every further request is answered with HTTP 500,
// which turns a non-terminating search into a counted, deterministic failure.
package srv

import (
	"bytes"
	"compress/gzip"
	"fmt"
	"io"
	"net/http"
	"net/http/httptest"
	"net/url"
	"strconv"
	"strings"
	"sync"
	"time"
)

// Stream names as they appear in the planet URL.
const (
	Minute     = "minute"
	Hour       = "hour"
	Day        = "day"
	Changesets = "changesets"
)

// Streams lists the four replication streams.
var Streams = []string{Minute, Hour, Day, Changesets}

// Timestamp layouts a state file can carry (the three documented ones).
const (
	// FmtProps is the Java-properties form of the minute/hour/day state.txt files:
	// timestamp=2016-07-16T06\:14\:02Z
	FmtProps = "props"
	// FmtYamlZ is the changeset YAML form "2016-07-02 22:46:01.422137422 Z".
	FmtYamlZ = "yamlZ"
	// FmtYamlOff is the changeset YAML form "2016-07-02 22:46:01.422137422 +00:00".
	FmtYamlOff = "yamlOff"
)

// StateFile describes one state file of a directory.
type StateFile struct {
	Time time.Time
	// Format is one of the Fmt* constants; "" picks the stream's default.
	Format string
	// Txn adds the transaction lines of a minutely state file (osmosis writes 64-bit
	// txid_current() values; the planet's have been above 2^31 since about 2019).
	Txn                   bool
	TxnMax, TxnMaxQueried int64
	// TxnActive / TxnReady are the txnActiveList / txnReadyList entries (may be empty).
	TxnActive, TxnReady []int64
	// Order selects the key order of a properties state file (java.util.Properties has no
	// fixed order): 0 the order of the library's example, 1 the order of the planet's minute
	// files (timestamp last, after the long txnActiveList line), 2 timestamp first, larger
	// values a permutation derived from the value.
	Order int
	// Extra are further lines of a properties file: unknown keys, comments, blank lines.
	Extra []string
	// CRLF terminates the lines of a properties file with \r\n (allowed by the format).
	CRLF bool
	// YamlSeqSame: the sequence line of a changeset state file repeats the file's own number
	// (the earliest planet files) instead of being one less (the planet's consistent mistake).
	YamlSeqSame bool
}

// Dir is the content of one replication directory.
type Dir struct {
	Stream string
	States map[uint64]StateFile // present state files by sequence number
	// Lookup, when set, replaces States: large directories compute their state files from a
	// function instead of storing them.
	Lookup  func(n uint64) (StateFile, bool)
	Current uint64            // newest sequence number (served as state.txt / state.yaml)
	Data    map[uint64][]byte // sequence-numbered data files (already gzip'd)
	// NotFoundBody is sent with the 404 of a missing file (real servers send an error page).
	// Empty means no body, which lets a client reuse its connection even if it does not read
	// error responses to the end.
	NotFoundBody []byte
	// GzipText makes the server behave like Apache mod_deflate / nginx gzip / a CDN: a state
	// file (text) is sent with Content-Encoding: gzip when the request says Accept-Encoding:
	// gzip. (Go's transport adds that header by itself and then undoes the coding; a caller
	// that sets the header has to undo it.) Data files are .gz bodies and stay untouched.
	GzipText bool
}

// Get returns the state file of sequence n, if present.
func (d *Dir) Get(n uint64) (StateFile, bool) {
	if d.Lookup != nil {
		return d.Lookup(n)
	}
	st, ok := d.States[n]
	return st, ok
}

// Req is one logged request.
type Req struct {
	Path   string `json:"path"`          // decoded path (+ ?query)
	Raw    string `json:"raw,omitempty"` // request URI as received, when it differs from Path
	Status int    `json:"status"`
}

// Planet is the fake server. One Planet serves one directory at a time (Load swaps it), so
// lookups against it must be sequential; the requests of one lookup may be concurrent.
//
// Every Load opens a new epoch, and BaseURL carries it as the first path segment
// (/e<epoch>), so each request says itself which lookup it belongs to. A client may cancel
// a request in flight and net/http may still run its handler later — after the lookup has
// returned and the next directory has been loaded. Such a request is judged against nothing:
// it is counted in LateRequests and answered 410.
type Planet struct {
	Server *httptest.Server
	// Prefix is a path prefix in front of /replication (a mirror below a sub-path); the
	// library's BaseURL must be BaseURL().
	Prefix string

	mu         sync.Mutex
	epoch      int64 // epoch of the loaded directory
	closed     bool  // Observed has been called: the lookup of this epoch is over
	late       int64 // requests that arrived for a finished epoch
	gzipped    int64 // state files sent with Content-Encoding: gzip
	zw         *gzip.Writer
	step       int64 // directory version inside the epoch (Swap), stamped on requests by Client
	handed     int64 // response bodies handed to the caller through Client
	bclosed    int64 // ... of which closed
	client     *http.Client
	dir        *Dir
	decPrefix  string            // Prefix with its percent escapes decoded
	bodies     map[uint64][]byte // rendered state files of dir (they can be 64 KiB)
	budget     int
	count      int
	log        []Req
	unexpected []string
	seqSeen    map[uint64]int
}

// NewPlanet starts a fake planet server on the loopback interface.
func NewPlanet() *Planet {
	p := &Planet{}
	p.Server = httptest.NewServer(http.HandlerFunc(p.handle))
	return p
}

// Close shuts the server down.
func (p *Planet) Close() {
	p.mu.Lock()
	c := p.client
	p.mu.Unlock()
	if c != nil {
		c.CloseIdleConnections()
	}
	p.Server.Client().CloseIdleConnections()
	p.Server.Close() // waits for the serving goroutines
}

// BaseURL is what the library's Datasource.BaseURL must be set to.
func (p *Planet) BaseURL() string {
	p.mu.Lock()
	defer p.mu.Unlock()
	return fmt.Sprintf("%s/e%d%s", p.Server.URL, p.epoch, p.Prefix)
}

// TakeLate returns and resets the number of requests that arrived after the lookup they
// belong to had finished.
func (p *Planet) TakeLate() int64 {
	p.mu.Lock()
	defer p.mu.Unlock()
	n := p.late
	p.late = 0
	return n
}

// Load installs a directory and a request budget, and clears the request log.
func (p *Planet) Load(d *Dir, budget int, prefix string) {
	p.mu.Lock()
	if p.dir != d {
		p.bodies = map[uint64][]byte{}
	}
	p.dir, p.budget, p.count = d, budget, 0
	p.epoch++
	p.step = 0
	p.handed, p.bclosed = 0, 0
	p.closed = false
	p.Prefix = prefix
	p.decPrefix = prefix
	if dec, err := url.PathUnescape(prefix); err == nil {
		p.decPrefix = dec
	}
	p.log = nil
	p.unexpected = nil
	p.seqSeen = map[uint64]int{}
	p.mu.Unlock()
}

// Swap replaces the directory inside the running epoch (the base URL stays the same): the
// directory of a live server advances between two calls on one Datasource. Requests carry the
// step they were issued in (see Client), so a straggler of the previous step is not judged.
func (p *Planet) Swap(d *Dir, budget int) {
	p.mu.Lock()
	p.bodies = map[uint64][]byte{}
	p.dir, p.budget, p.count = d, budget, 0
	p.step++
	p.handed, p.bclosed = 0, 0
	p.closed = false
	p.log = nil
	p.unexpected = nil
	p.seqSeen = map[uint64]int{}
	p.mu.Unlock()
}

const stepHeader = "X-Verif-Step"

// tracker is the RoundTripper of the clients the harness gives to the library: it stamps the
// current step on every request and counts the response bodies it hands out and their Close.
type tracker struct {
	p    *Planet
	base http.RoundTripper
}

type trackedBody struct {
	io.ReadCloser
	p    *Planet
	step int64
	once sync.Once
}

func (b *trackedBody) Close() error {
	b.once.Do(func() {
		b.p.mu.Lock()
		if b.step == b.p.step {
			b.p.bclosed++
		}
		b.p.mu.Unlock()
	})
	return b.ReadCloser.Close()
}

func (t *tracker) RoundTrip(req *http.Request) (*http.Response, error) {
	t.p.mu.Lock()
	step := t.p.step
	t.p.mu.Unlock()
	r2 := req.Clone(req.Context())
	r2.Header.Set(stepHeader, strconv.FormatInt(step, 10))
	resp, err := t.base.RoundTrip(r2)
	if resp != nil && resp.Body != nil {
		t.p.mu.Lock()
		if step == t.p.step {
			t.p.handed++
		}
		t.p.mu.Unlock()
		resp.Body = &trackedBody{ReadCloser: resp.Body, p: t.p, step: step}
	}
	return resp, err
}

// Client is the http.Client to configure the library with.
func (p *Planet) Client() *http.Client {
	p.mu.Lock()
	defer p.mu.Unlock()
	if p.client == nil {
		p.client = &http.Client{Transport: &tracker{p: p, base: p.Server.Client().Transport}}
	}
	return p.client
}

// LimitedClient is a client that may hold at most maxConns connections to the server at a
// time: a response body that is never closed keeps its connection, so a caller that leaks
// bodies stops making progress. The caller must call CloseIdleConnections when done.
func (p *Planet) LimitedClient(maxConns int) *http.Client {
	tr := &http.Transport{MaxConnsPerHost: maxConns, MaxIdleConnsPerHost: maxConns}
	return &http.Client{Transport: &tracker{p: p, base: tr}}
}

// Bodies returns how many response bodies were handed to the caller since Load/Swap and how
// many of them have been closed.
func (p *Planet) Bodies() (handed, closed int64) {
	p.mu.Lock()
	defer p.mu.Unlock()
	return p.handed, p.bclosed
}

// Observed ends the epoch of the loaded directory and returns what the server saw since Load: number of requests, the log, the paths
// outside the documented layout and how often each state sequence number was requested.
func (p *Planet) Observed() (count int, log []Req, unexpected []string, perSeq map[uint64]int) {
	p.mu.Lock()
	defer p.mu.Unlock()
	p.closed = true // whatever arrives from now on belongs to a finished lookup
	return p.count, append([]Req(nil), p.log...), append([]string(nil), p.unexpected...), p.seqSeen
}

// SeqPath renders the three-level zero-padded path of a sequence number (no extension):
// 2010580 -> 002/010/580.
func SeqPath(n uint64) string {
	s := fmt.Sprintf("%09d", n)
	return s[:len(s)-6] + "/" + s[len(s)-6:len(s)-3] + "/" + s[len(s)-3:]
}

// splitEpoch splits /e<digits>/rest into the epoch and /rest.
func splitEpoch(path string) (int64, string, bool) {
	if len(path) < 3 || path[0] != '/' || path[1] != 'e' {
		return 0, "", false
	}
	i := 2
	var e int64
	for i < len(path) && path[i] >= '0' && path[i] <= '9' {
		e = e*10 + int64(path[i]-'0')
		i++
	}
	if i == 2 || (i < len(path) && path[i] != '/') {
		return 0, "", false
	}
	return e, path[i:], true
}

// parseSeqPath accepts exactly DDD/DDD/DDD.
func parseSeqPath(s string) (uint64, bool) {
	if len(s) != 11 || s[3] != '/' || s[7] != '/' {
		return 0, false
	}
	var n uint64
	for i := 0; i < len(s); i++ {
		if i == 3 || i == 7 {
			continue
		}
		c := s[i]
		if c < '0' || c > '9' {
			return 0, false
		}
		n = n*10 + uint64(c-'0')
	}
	return n, true
}

func (p *Planet) handle(w http.ResponseWriter, r *http.Request) {
	p.mu.Lock()
	defer p.mu.Unlock()
	path := r.URL.Path
	// the epoch segment says which lookup the request belongs to
	if e, rest, ok := splitEpoch(path); ok {
		if e != p.epoch || p.closed {
			p.late++
			w.Header().Set("Content-Length", "0")
			w.WriteHeader(http.StatusGone)
			return
		}
		if h := r.Header.Get(stepHeader); h != "" && h != strconv.FormatInt(p.step, 10) {
			p.late++ // issued before the directory advanced
			w.Header().Set("Content-Length", "0")
			w.WriteHeader(http.StatusGone)
			return
		}
		path = rest
	} else if p.closed {
		p.late++
		w.Header().Set("Content-Length", "0")
		w.WriteHeader(http.StatusGone)
		return
	} else {
		path = "(no epoch segment)" + path // not below the configured base URL at all
	}
	if r.URL.RawQuery != "" {
		path += "?" + r.URL.RawQuery
	}
	status, body := p.answer(r, path)
	p.count++
	if len(p.log) < 4096 {
		rq := Req{Path: path, Status: status}
		raw := r.RequestURI
		if _, rest, ok := splitEpoch(raw); ok {
			raw = rest
		}
		if raw != path {
			rq.Raw = raw
		}
		p.log = append(p.log, rq)
	}
	if body == nil {
		// no body at all: keeps the client's connection reusable even when the caller does
		// not drain error responses
		w.Header().Set("Content-Length", "0")
		w.WriteHeader(status)
		return
	}
	isText := strings.HasSuffix(r.URL.Path, "state.txt") || strings.HasSuffix(r.URL.Path, "state.yaml")
	if status == http.StatusOK && isText && p.dir != nil && p.dir.GzipText {
		if strings.Contains(r.Header.Get("Accept-Encoding"), "gzip") {
			var zb bytes.Buffer
			if p.zw == nil { // one compressor, reused (a new one costs about a megabyte)
				p.zw, _ = gzip.NewWriterLevel(&zb, gzip.BestSpeed)
			} else {
				p.zw.Reset(&zb)
			}
			p.zw.Write(body)
			p.zw.Close()
			body = zb.Bytes()
			w.Header().Set("Content-Encoding", "gzip")
			w.Header().Set("Vary", "Accept-Encoding")
			p.gzipped++
		}
	}
	w.Header().Set("Content-Type", "text/plain")
	w.Header().Set("Content-Length", fmt.Sprint(len(body)))
	w.WriteHeader(status)
	w.Write(body)
}

// TakeGzipped returns and resets the number of state files sent gzip-encoded.
func (p *Planet) TakeGzipped() int64 {
	p.mu.Lock()
	defer p.mu.Unlock()
	n := p.gzipped
	p.gzipped = 0
	return n
}

func (p *Planet) answer(r *http.Request, path string) (int, []byte) {
	d := p.dir
	if d == nil {
		p.unexpected = append(p.unexpected, "no directory loaded: "+path)
		return http.StatusInternalServerError, nil
	}
	if p.count >= p.budget {
		return http.StatusInternalServerError, nil // budget used up
	}
	bad := func(why string) (int, []byte) {
		if len(p.unexpected) < 64 {
			p.unexpected = append(p.unexpected, why+": "+r.Method+" "+path)
		}
		return http.StatusBadRequest, nil
	}
	if r.Method != http.MethodGet {
		return bad("method")
	}
	root := p.decPrefix + "/replication/" + d.Stream + "/"
	if !strings.HasPrefix(path, root) {
		return bad("unexpected path")
	}
	rest := path[len(root):]
	curName := "state.txt"
	dataExt := ".osc.gz"
	if d.Stream == Changesets {
		curName = "state.yaml"
		dataExt = ".osm.gz"
	}
	if rest == curName {
		st, ok := d.Get(d.Current)
		if !ok {
			return http.StatusNotFound, d.NotFoundBody
		}
		return http.StatusOK, RenderState(d.Stream, d.Current, st, true)
	}
	switch {
	case strings.HasSuffix(rest, ".state.txt"):
		n, ok := parseSeqPath(strings.TrimSuffix(rest, ".state.txt"))
		if !ok {
			return bad("unexpected path")
		}
		p.seqSeen[n]++
		st, ok := d.Get(n)
		if !ok {
			return http.StatusNotFound, d.NotFoundBody
		}
		if b, ok := p.bodies[n]; ok {
			return http.StatusOK, b
		}
		b := RenderState(d.Stream, n, st, false)
		p.bodies[n] = b
		return http.StatusOK, b
	case strings.HasSuffix(rest, dataExt):
		n, ok := parseSeqPath(strings.TrimSuffix(rest, dataExt))
		if !ok {
			return bad("unexpected path")
		}
		b, ok := d.Data[n]
		if !ok {
			return http.StatusNotFound, d.NotFoundBody
		}
		return http.StatusOK, b
	}
	return bad("unexpected path")
}

// RenderTime renders an instant in one of the documented layouts.
func RenderTime(t time.Time, format string) string {
	t = t.UTC()
	switch format {
	case FmtYamlZ:
		return fmt.Sprintf("%s.%09d Z", t.Format("2006-01-02 15:04:05"), t.Nanosecond())
	case FmtYamlOff:
		return fmt.Sprintf("%s.%09d +00:00", t.Format("2006-01-02 15:04:05"), t.Nanosecond())
	default:
		return strings.ReplaceAll(t.Format("2006-01-02T15:04:05Z"), ":", `\:`)
	}
}

// RenderState renders the state file of sequence n the way the planet server writes it.
// current says whether this is the directory's state.txt / state.yaml.
func RenderState(stream string, n uint64, st StateFile, current bool) []byte {
	var b bytes.Buffer
	if stream == Changesets {
		f := st.Format
		if f != FmtYamlOff {
			f = FmtYamlZ
		}
		// The number inside a changeset state file is one less than the name of the file it
		// is paired with ("a consistent mistake"); the earliest files carry the same number.
		seq := n - 1
		if st.YamlSeqSame && !current {
			seq = n
		}
		fmt.Fprintf(&b, "---\nlast_run: %s\nsequence: %d\n", RenderTime(st.Time, f), seq)
		return b.Bytes()
	}
	t := st.Time.UTC()
	seqL := fmt.Sprintf("sequenceNumber=%d", n)
	tsL := "timestamp=" + RenderTime(t, FmtProps)
	lines := []string{seqL, tsL}
	if st.Txn {
		q := fmt.Sprintf("txnMaxQueried=%d", st.TxnMaxQueried)
		ready := "txnReadyList=" + joinInts(st.TxnReady)
		max := fmt.Sprintf("txnMax=%d", st.TxnMax)
		active := "txnActiveList=" + joinInts(st.TxnActive)
		switch st.Order {
		case 0:
			lines = []string{q, seqL, tsL, ready, max, active}
		case 1:
			lines = []string{seqL, q, active, ready, max, tsL}
		case 2:
			lines = []string{tsL, active, seqL, max, ready, q}
		default:
			lines = []string{q, seqL, tsL, ready, max, active}
		}
	} else if st.Order == 2 || st.Order%2 == 1 {
		lines = []string{tsL, seqL}
	}
	if st.Order > 2 { // a permutation derived from Order
		x := uint64(st.Order) * 0x9E3779B97F4A7C15
		for i := len(lines) - 1; i > 0; i-- {
			x ^= x >> 29
			x *= 0xBF58476D1CE4E5B9
			j := int(x >> 33 % uint64(i+1))
			lines[i], lines[j] = lines[j], lines[i]
		}
	}
	// extra lines go between the keys, the first after the second key
	for i, e := range st.Extra {
		at := 2 + i
		if at > len(lines) {
			at = len(lines)
		}
		lines = append(lines[:at], append([]string{e}, lines[at:]...)...)
	}
	nl := "\n"
	if st.CRLF {
		nl = "\r\n"
	}
	// the comment line is the (later) wall-clock time the file was written at
	b.WriteString("#" + t.Add(61*time.Second).Format("Mon Jan 02 15:04:05 UTC 2006") + nl)
	for _, l := range lines {
		b.WriteString(l + nl)
	}
	return b.Bytes()
}

func joinInts(xs []int64) string {
	var b strings.Builder
	for i, x := range xs {
		if i > 0 {
			b.WriteByte(',')
		}
		fmt.Fprint(&b, x)
	}
	return b.String()
}

// Gzip compresses a body the way the planet's .osc.gz / .osm.gz files are.
func Gzip(body string) []byte {
	var b bytes.Buffer
	w := gzip.NewWriter(&b)
	w.Write([]byte(body))
	w.Close()
	return b.Bytes()
}
