// Package apixml is an independent OSM-XML producer for the fake API v0.6 server: generators
// build the *expected* values (plain osm structs used as data containers) and the writer
// renders them as API v0.6 response documents by string building with its own escaping.
// Nothing here calls a marshaller of the library under test.
package apixml

import (
	"fmt"
	"strconv"
	"strings"
	"time"

	"github.com/paulmach/osm"

	"verif/internal/gen"
)

// XW writes API documents. With Noise set it varies quoting, attribute order, entity forms
// and inter-element whitespace/comments (all insignificant in XML).
type XW struct {
	sb    strings.Builder
	R     *gen.R
	Noise bool
}

func (w *XW) String() string { return w.sb.String() }

func (w *XW) escape(s string, attr bool, quote byte) string {
	var sb strings.Builder
	for _, c := range s {
		switch {
		case c == '&':
			sb.WriteString("&amp;")
		case c == '<':
			sb.WriteString("&lt;")
		case c == '>':
			sb.WriteString("&gt;")
		case attr && c == rune(quote) && c == '"':
			sb.WriteString("&quot;")
		case attr && c == rune(quote) && c == '\'':
			sb.WriteString("&apos;")
		case c == '\t' || c == '\n' || c == '\r':
			sb.WriteString("&#" + strconv.Itoa(int(c)) + ";")
		case w.Noise && c > 0x7f && w.R.Chance(0.2):
			if w.R.Bool() {
				sb.WriteString("&#x" + strconv.FormatInt(int64(c), 16) + ";")
			} else {
				sb.WriteString("&#" + strconv.Itoa(int(c)) + ";")
			}
		default:
			sb.WriteRune(c)
		}
	}
	return sb.String()
}

type kv struct{ k, v string }

func (w *XW) sep() {
	if !w.Noise {
		w.sb.WriteString("\n")
		return
	}
	switch w.R.Intn(5) {
	case 0:
	case 1:
		w.sb.WriteString("\n  ")
	case 2:
		w.sb.WriteString(" \t\r\n")
	case 3:
		w.sb.WriteString("\n<!-- c -->\n")
	default:
		w.sb.WriteString("\n")
	}
}

// open writes "<name a=.. b=..", then ">" or "/>" when selfClose.
func (w *XW) open(name string, attrs []kv, selfClose bool) {
	if w.Noise && len(attrs) > 1 && w.R.Chance(0.5) {
		w.R.Shuffle(len(attrs), func(i, j int) { attrs[i], attrs[j] = attrs[j], attrs[i] })
	}
	w.sb.WriteString("<" + name)
	for _, a := range attrs {
		q := byte('"')
		if w.Noise && w.R.Chance(0.3) {
			q = '\''
		}
		w.sb.WriteString(" " + a.k + "=" + string(q) + w.escape(a.v, true, q) + string(q))
	}
	if selfClose {
		if w.Noise && w.R.Chance(0.3) {
			w.sb.WriteString("></" + name + ">")
		} else {
			w.sb.WriteString("/>")
		}
	} else {
		w.sb.WriteString(">")
	}
	if selfClose {
		w.sep()
	}
}

func (w *XW) close(name string) {
	w.sb.WriteString("</" + name + ">")
	w.sep()
}

func (w *XW) textElem(name, text string) {
	w.sb.WriteString("<" + name + ">" + w.escape(text, false, 0) + "</" + name + ">")
	w.sep()
}

func coord(v float64) string { return strconv.FormatFloat(v, 'f', 7, 64) }
func stamp(t time.Time) string {
	return t.UTC().Format("2006-01-02T15:04:05Z")
}
func noteDate(t time.Time) string { return t.UTC().Format("2006-01-02 15:04:05") + " UTC" }
func itoa(v int64) string         { return strconv.FormatInt(v, 10) }

func (w *XW) tags(ts osm.Tags) {
	for _, t := range ts {
		w.open("tag", []kv{{"k", t.Key}, {"v", t.Value}}, true)
	}
}

func (w *XW) node(n *osm.Node) {
	at := []kv{{"id", itoa(int64(n.ID))}, {"visible", strconv.FormatBool(n.Visible)}, {"version", itoa(int64(n.Version))},
		{"changeset", itoa(int64(n.ChangesetID))}, {"timestamp", stamp(n.Timestamp)}, {"user", n.User}, {"uid", itoa(int64(n.UserID))}}
	if n.Visible {
		// the API leaves lat/lon out for deleted versions
		at = append(at, kv{"lat", coord(n.Lat)}, kv{"lon", coord(n.Lon)})
	}
	if len(n.Tags) == 0 {
		w.open("node", at, true)
		return
	}
	w.open("node", at, false)
	w.sep()
	w.tags(n.Tags)
	w.close("node")
}

func (w *XW) way(x *osm.Way) {
	at := []kv{{"id", itoa(int64(x.ID))}, {"visible", strconv.FormatBool(x.Visible)}, {"version", itoa(int64(x.Version))},
		{"changeset", itoa(int64(x.ChangesetID))}, {"timestamp", stamp(x.Timestamp)}, {"user", x.User}, {"uid", itoa(int64(x.UserID))}}
	w.open("way", at, false)
	w.sep()
	for _, nd := range x.Nodes {
		w.open("nd", []kv{{"ref", itoa(int64(nd.ID))}}, true)
	}
	w.tags(x.Tags)
	w.close("way")
}

func (w *XW) relation(x *osm.Relation) {
	at := []kv{{"id", itoa(int64(x.ID))}, {"visible", strconv.FormatBool(x.Visible)}, {"version", itoa(int64(x.Version))},
		{"changeset", itoa(int64(x.ChangesetID))}, {"timestamp", stamp(x.Timestamp)}, {"user", x.User}, {"uid", itoa(int64(x.UserID))}}
	w.open("relation", at, false)
	w.sep()
	for _, m := range x.Members {
		w.open("member", []kv{{"type", string(m.Type)}, {"ref", itoa(m.Ref)}, {"role", m.Role}}, true)
	}
	w.tags(x.Tags)
	w.close("relation")
}

func (w *XW) changeset(c *osm.Changeset) {
	at := []kv{{"id", itoa(int64(c.ID))}, {"created_at", stamp(c.CreatedAt)}, {"open", strconv.FormatBool(c.Open)},
		{"user", c.User}, {"uid", itoa(int64(c.UserID))}, {"comments_count", itoa(int64(c.CommentsCount))}}
	if !c.ClosedAt.IsZero() {
		at = append(at, kv{"closed_at", stamp(c.ClosedAt)})
	}
	if c.MinLat != 0 || c.MaxLat != 0 || c.MinLon != 0 || c.MaxLon != 0 {
		at = append(at, kv{"min_lat", coord(c.MinLat)}, kv{"min_lon", coord(c.MinLon)}, kv{"max_lat", coord(c.MaxLat)}, kv{"max_lon", coord(c.MaxLon)})
	}
	w.open("changeset", at, false)
	w.sep()
	w.tags(c.Tags)
	if c.Discussion != nil {
		w.open("discussion", nil, false)
		w.sep()
		for _, cm := range c.Discussion.Comments {
			w.open("comment", []kv{{"date", stamp(cm.Timestamp)}, {"uid", itoa(int64(cm.UserID))}, {"user", cm.User}}, false)
			w.textElem("text", cm.Text)
			w.close("comment")
		}
		w.close("discussion")
	}
	w.close("changeset")
}

func (w *XW) note(n *osm.Note) {
	w.open("note", []kv{{"lon", coord(n.Lon)}, {"lat", coord(n.Lat)}}, false)
	w.sep()
	w.textElem("id", itoa(int64(n.ID)))
	w.textElem("url", n.URL)
	if n.CommentURL != "" {
		w.textElem("comment_url", n.CommentURL)
	}
	if n.CloseURL != "" {
		w.textElem("close_url", n.CloseURL)
	}
	if n.ReopenURL != "" {
		w.textElem("reopen_url", n.ReopenURL)
	}
	w.textElem("date_created", noteDate(n.DateCreated.Time))
	w.textElem("status", string(n.Status))
	if !n.DateClosed.IsZero() {
		w.textElem("date_closed", noteDate(n.DateClosed.Time))
	}
	w.open("comments", nil, false)
	w.sep()
	for _, c := range n.Comments {
		w.open("comment", nil, false)
		w.sep()
		w.textElem("date", noteDate(c.Date.Time))
		if c.UserID != 0 {
			w.textElem("uid", itoa(int64(c.UserID)))
			w.textElem("user", c.User)
			w.textElem("user_url", c.UserURL)
		}
		w.textElem("action", string(c.Action))
		w.textElem("text", c.Text)
		w.textElem("html", c.HTML)
		w.close("comment")
	}
	w.close("comments")
	w.close("note")
}

func (w *XW) user(u *osm.User) {
	w.open("user", []kv{{"id", itoa(int64(u.ID))}, {"display_name", u.Name}, {"account_created", stamp(u.CreatedAt)}}, false)
	w.sep()
	w.textElem("description", u.Description)
	w.open("contributor-terms", []kv{{"agreed", "true"}}, true)
	if u.Img.Href != "" {
		w.open("img", []kv{{"href", u.Img.Href}}, true)
	}
	w.open("roles", nil, false)
	w.close("roles")
	w.open("changesets", []kv{{"count", itoa(int64(u.Changesets.Count))}}, true)
	w.open("traces", []kv{{"count", itoa(int64(u.Traces.Count))}}, true)
	w.open("blocks", nil, false)
	w.open("received", []kv{{"count", itoa(int64(u.Blocks.Received.Count))}, {"active", itoa(int64(u.Blocks.Received.Active))}}, true)
	w.close("blocks")
	if u.Home.Lat != 0 || u.Home.Lon != 0 || u.Home.Zoom != 0 {
		w.open("home", []kv{{"lat", coord(u.Home.Lat)}, {"lon", coord(u.Home.Lon)}, {"zoom", itoa(int64(u.Home.Zoom))}}, true)
	}
	if len(u.Languages) > 0 {
		w.open("languages", nil, false)
		for _, l := range u.Languages {
			w.textElem("lang", l)
		}
		w.close("languages")
	}
	if u.Messages.Received.Count != 0 || u.Messages.Received.Unread != 0 || u.Messages.Sent.Count != 0 {
		w.open("messages", nil, false)
		w.open("received", []kv{{"count", itoa(int64(u.Messages.Received.Count))}, {"unread", itoa(int64(u.Messages.Received.Unread))}}, true)
		w.open("sent", []kv{{"count", itoa(int64(u.Messages.Sent.Count))}}, true)
		w.close("messages")
	}
	w.close("user")
}

func rootAttrs(version, generator, copyright, attribution, license string) []kv {
	var at []kv
	for _, a := range []kv{{"version", version}, {"generator", generator}, {"copyright", copyright}, {"attribution", attribution}, {"license", license}} {
		if a.v != "" {
			at = append(at, a)
		}
	}
	return at
}

func (w *XW) osmBody(o *osm.OSM) {
	if o.Bounds != nil {
		b := o.Bounds
		w.open("bounds", []kv{{"minlat", coord(b.MinLat)}, {"minlon", coord(b.MinLon)}, {"maxlat", coord(b.MaxLat)}, {"maxlon", coord(b.MaxLon)}}, true)
	}
	for _, n := range o.Nodes {
		w.node(n)
	}
	for _, x := range o.Ways {
		w.way(x)
	}
	for _, x := range o.Relations {
		w.relation(x)
	}
	for _, c := range o.Changesets {
		w.changeset(c)
	}
	for _, n := range o.Notes {
		w.note(n)
	}
	for _, u := range o.Users {
		w.user(u)
	}
}

func (w *XW) prolog() {
	if !w.Noise || w.R.Chance(0.8) {
		w.sb.WriteString(`<?xml version="1.0" encoding="UTF-8"?>` + "\n")
	}
}

// OSMDoc renders an <osm> response document holding exactly the contents of o.
func OSMDoc(r *gen.R, noise bool, o *osm.OSM) []byte {
	w := &XW{R: r, Noise: noise}
	w.prolog()
	w.open("osm", rootAttrs(o.Version, o.Generator, o.Copyright, o.Attribution, o.License), false)
	w.sep()
	w.osmBody(o)
	w.sb.WriteString("</osm>\n")
	return []byte(w.String())
}

// ChangeBlock is one action block of an osmChange document: Action is create, modify or
// delete; O holds the block's elements (may be empty: an empty block).
type ChangeBlock struct {
	Action string
	O      *osm.OSM
}

// ChangeBlocksDoc renders an <osmChange> document whose action blocks appear exactly in the
// given order — repeated, interleaved and empty blocks included, which is the shape of the
// API's changeset download (one block per element, in changeset order).
func ChangeBlocksDoc(r *gen.R, noise bool, root *osm.Change, blocks []ChangeBlock) []byte {
	w := &XW{R: r, Noise: noise}
	w.prolog()
	w.open("osmChange", rootAttrs(root.Version, root.Generator, root.Copyright, root.Attribution, root.License), false)
	w.sep()
	for _, b := range blocks {
		n := len(b.O.Nodes) + len(b.O.Ways) + len(b.O.Relations)
		if n == 0 {
			w.open(b.Action, nil, true)
			continue
		}
		w.open(b.Action, nil, false)
		w.sep()
		w.osmBody(b.O)
		w.close(b.Action)
	}
	w.sb.WriteString("</osmChange>\n")
	return []byte(w.String())
}

// ChangeOfBlocks is the value an osmChange document with these blocks stands for: per action
// the elements of all its blocks in document order, per element kind; an action without any
// block stays nil.
func ChangeOfBlocks(root *osm.Change, blocks []ChangeBlock) *osm.Change {
	c := *root
	c.Create, c.Modify, c.Delete = nil, nil, nil
	for _, b := range blocks {
		var dst **osm.OSM
		switch b.Action {
		case "create":
			dst = &c.Create
		case "modify":
			dst = &c.Modify
		default:
			dst = &c.Delete
		}
		if *dst == nil {
			*dst = &osm.OSM{}
		}
		(*dst).Nodes = append((*dst).Nodes, b.O.Nodes...)
		(*dst).Ways = append((*dst).Ways, b.O.Ways...)
		(*dst).Relations = append((*dst).Relations, b.O.Relations...)
	}
	return &c
}

// ---------------------------------------------------------------------------------------
// generators of expected values

// The root attributes the official API sends (written out here from the API documentation).
const (
	apiGenerator   = "OpenStreetMap server"
	apiCopyright   = "OpenStreetMap and contributors"
	apiAttribution = "http://www.openstreetmap.org/copyright"
	apiLicense     = "http://opendatacommons.org/licenses/odbl/1-0/"
)

// NewOSM returns an empty document value with the official root attributes.
func NewOSM() *osm.OSM {
	return &osm.OSM{Version: "0.6", Generator: apiGenerator, Copyright: apiCopyright, Attribution: apiAttribution, License: apiLicense}
}

// NewChange returns an empty osmChange value with the official root attributes.
func NewChange() *osm.Change {
	return &osm.Change{Version: "0.6", Generator: apiGenerator, Copyright: apiCopyright, Attribution: apiAttribution, License: apiLicense}
}

func genTags(r *gen.R) osm.Tags {
	n := r.Pick(0, 0, 1, 2, 4)
	var ts osm.Tags
	for i := 0; i < n; i++ {
		ts = append(ts, osm.Tag{Key: r.Word() + strconv.Itoa(i), Value: r.Str(12)})
	}
	return ts
}

func genID(r *gen.R) int64 {
	if r.Chance(0.2) {
		return r.Int64Range(1<<32, 1<<40)
	}
	return r.Int64Range(1, 5_000_000)
}

// GenNode builds a node version as the API reports it.
func GenNode(r *gen.R, id int64) *osm.Node {
	n := &osm.Node{ID: osm.NodeID(id), User: r.Str(10), UserID: osm.UserID(r.Int64Range(1, 9_000_000)), Visible: r.Chance(0.85),
		Version: r.Range(1, 40), ChangesetID: osm.ChangesetID(r.Int64Range(1, 150_000_000)), Timestamp: r.Time()}
	if n.Visible {
		n.Lat, n.Lon, n.Tags = r.Coord(90), r.Coord(180), genTags(r)
	}
	return n
}

// GenWay builds a way version as the API reports it.
func GenWay(r *gen.R, id int64) *osm.Way {
	x := &osm.Way{ID: osm.WayID(id), User: r.Str(10), UserID: osm.UserID(r.Int64Range(1, 9_000_000)), Visible: r.Chance(0.85),
		Version: r.Range(1, 40), ChangesetID: osm.ChangesetID(r.Int64Range(1, 150_000_000)), Timestamp: r.Time()}
	if x.Visible {
		for i, n := 0, r.Range(2, 6); i < n; i++ {
			x.Nodes = append(x.Nodes, osm.WayNode{ID: osm.NodeID(genID(r))})
		}
		x.Tags = genTags(r)
	}
	return x
}

// GenRelation builds a relation version as the API reports it.
func GenRelation(r *gen.R, id int64) *osm.Relation {
	x := &osm.Relation{ID: osm.RelationID(id), User: r.Str(10), UserID: osm.UserID(r.Int64Range(1, 9_000_000)), Visible: r.Chance(0.85),
		Version: r.Range(1, 40), ChangesetID: osm.ChangesetID(r.Int64Range(1, 150_000_000)), Timestamp: r.Time()}
	if x.Visible {
		for i, n := 0, r.Range(0, 5); i < n; i++ {
			x.Members = append(x.Members, osm.Member{Type: osm.Type(r.PickS("node", "way", "relation")), Ref: genID(r), Role: r.PickS("", "outer", "inner", r.Str(6))})
		}
		x.Tags = genTags(r)
	}
	return x
}

// GenChangeset builds a changeset as the API reports it, with or without its discussion.
func GenChangeset(r *gen.R, id int64, discussion bool) *osm.Changeset {
	c := &osm.Changeset{ID: osm.ChangesetID(id), User: r.Str(10), UserID: osm.UserID(r.Int64Range(1, 9_000_000)),
		CreatedAt: r.Time(), Open: r.Chance(0.3), Tags: genTags(r)}
	if !c.Open {
		c.ClosedAt = c.CreatedAt.Add(time.Duration(r.Range(1, 3600)) * time.Second)
	}
	if r.Chance(0.8) {
		la, lo := r.Int64Range(-800_000_000, 800_000_000), r.Int64Range(-1_700_000_000, 1_700_000_000)
		c.MinLat, c.MinLon = float64(la)/1e7, float64(lo)/1e7
		c.MaxLat, c.MaxLon = float64(la+12345)/1e7, float64(lo+54321)/1e7
	}
	if discussion {
		n := r.Range(0, 3)
		c.CommentsCount = n
		c.Discussion = &osm.ChangesetDiscussion{}
		for i := 0; i < n; i++ {
			c.Discussion.Comments = append(c.Discussion.Comments, &osm.ChangesetComment{User: r.Str(8), UserID: osm.UserID(r.Int64Range(1, 9_000_000)),
				Timestamp: r.Time(), Text: r.StrNonEmpty(30)})
		}
	}
	return c
}

// GenNote builds a note as the API reports it.
func GenNote(r *gen.R, id int64) *osm.Note {
	base := "https://api.openstreetmap.org/api/0.6/notes/" + itoa(id)
	n := &osm.Note{ID: osm.NoteID(id), Lat: r.Coord(90), Lon: r.Coord(180), URL: base,
		DateCreated: osm.Date{Time: r.Time()}, Status: osm.NoteOpen}
	closed := r.Chance(0.4)
	if closed {
		n.Status = osm.NoteClosed
		n.ReopenURL = base + "/reopen"
		n.DateClosed = osm.Date{Time: n.DateCreated.Add(time.Duration(r.Range(60, 86400*30)) * time.Second)}
	} else {
		n.CommentURL, n.CloseURL = base+"/comment", base+"/close"
	}
	nc := r.Range(1, 3)
	for i := 0; i < nc; i++ {
		c := &osm.NoteComment{Date: osm.Date{Time: n.DateCreated.Add(time.Duration(i) * time.Minute)}, Action: osm.NoteCommentComment}
		if i == 0 {
			c.Action = osm.NoteCommentOpened
		} else if closed && i == nc-1 {
			c.Action = osm.NoteCommentClosed
		}
		if r.Chance(0.7) {
			c.UserID = osm.UserID(r.Int64Range(1, 9_000_000))
			c.User = r.StrNonEmpty(8)
			c.UserURL = "https://api.openstreetmap.org/user/" + r.Word()
		}
		c.Text = r.Str(30)
		c.HTML = "<p>" + c.Text + "</p>"
		n.Comments = append(n.Comments, c)
	}
	return n
}

// GenUser builds a user as the API reports it.
func GenUser(r *gen.R, id int64) *osm.User {
	u := &osm.User{ID: osm.UserID(id), Name: r.StrNonEmpty(12), Description: r.Str(40), CreatedAt: r.Time()}
	if r.Bool() {
		u.Img.Href = "https://www.gravatar.com/avatar/" + r.Word() + ".jpg?s=100&d=x"
	}
	u.Changesets.Count = r.Range(0, 50000)
	u.Traces.Count = r.Range(0, 300)
	u.Blocks.Received.Count = r.Pick(0, 0, 1, 3)
	u.Blocks.Received.Active = r.Pick(0, 0, 1)
	if r.Chance(0.3) { // the parts only "user/details" shows; harmless when present
		u.Home.Lat, u.Home.Lon, u.Home.Zoom = r.Coord(90), r.Coord(180), r.Range(1, 19)
		u.Languages = []string{"en-US", "de"}[:r.Range(1, 2)]
		u.Messages.Received.Count, u.Messages.Received.Unread, u.Messages.Sent.Count = r.Range(1, 9), r.Range(0, 3), r.Range(0, 9)
	}
	return u
}

// DistinctIDs returns n distinct plausible ids, the first being first (when > 0).
func DistinctIDs(r *gen.R, n int, first int64) []int64 {
	seen := map[int64]bool{}
	var out []int64
	if first > 0 && n > 0 {
		out, seen[first] = append(out, first), true
	}
	for len(out) < n {
		id := genID(r)
		if !seen[id] {
			seen[id] = true
			out = append(out, id)
		}
	}
	return out
}

// Describe gives a one-line description of a document for samples.
func Describe(b []byte) string {
	s := string(b)
	if len(s) > 160 {
		s = s[:160] + fmt.Sprintf("… (%d bytes)", len(b))
	}
	return s
}
