package apixml

// Big answers: documents of many MiB, written as a stream of element templates with running
// ids so that neither the server nor the oracle holds a model of the whole answer. Element i
// is a pure function of i (BigNode / BigWay); the oracle regenerates it to compare.

import (
	"bufio"
	"io"
	"strconv"
	"time"

	"github.com/paulmach/osm"
)

// Big describes one big answer. Kind is "nodes" (an <osm> of nodes), "map" (bounds, nodes, one
// way per 12 nodes) or "change" (an <osmChange> with one action block per node, the action
// cycling create, modify, delete). Nodes is the number of nodes.
type Big struct {
	Kind  string
	Nodes int
}

// Ways is the number of ways of a "map" answer.
func (b Big) Ways() int {
	if b.Kind != "map" {
		return 0
	}
	return b.Nodes / 12
}

var bigEpoch = time.Date(2015, 3, 1, 12, 0, 0, 0, time.UTC)

// BigNode is node i of a big answer.
func BigNode(i int) *osm.Node {
	n := &osm.Node{
		ID: osm.NodeID(1_000_000_000 + int64(i)), Visible: true, Version: 1 + i%7,
		ChangesetID: osm.ChangesetID(50_000_000 + i/10), Timestamp: bigEpoch.Add(time.Duration(i) * time.Second),
		User: "mapper_" + strconv.Itoa(i%977), UserID: osm.UserID(1000 + i%977),
		Lat: float64((int64(i)*7919)%1_800_000_000-900_000_000) / 1e7,
		Lon: float64((int64(i)*104_729)%3_600_000_000-1_800_000_000) / 1e7,
	}
	if i%16 == 0 {
		n.Tags = osm.Tags{{Key: "name", Value: "N <&> " + strconv.Itoa(i)}, {Key: "amenity", Value: "bench"}}
	}
	return n
}

// BigWay is way j of a big "map" answer.
func BigWay(j int) *osm.Way {
	w := &osm.Way{
		ID: osm.WayID(200_000_000 + int64(j)), Visible: true, Version: 1 + j%5,
		ChangesetID: osm.ChangesetID(60_000_000 + j), Timestamp: bigEpoch.Add(time.Duration(j) * time.Minute),
		User: "wayfarer_" + strconv.Itoa(j%101), UserID: osm.UserID(5000 + j%101),
		Tags: osm.Tags{{Key: "highway", Value: "residential"}},
	}
	for k := 0; k < 8; k++ {
		w.Nodes = append(w.Nodes, osm.WayNode{ID: osm.NodeID(1_000_000_000 + int64(j*12+k))})
	}
	return w
}

// BigBounds are the bounds of a big "map" answer.
func BigBounds() *osm.Bounds {
	return &osm.Bounds{MinLat: -90, MinLon: -180, MaxLat: 90, MaxLon: 180}
}

// BigActions is the action cycle of a big "change" answer: node i is in a block BigActions[i%3].
var BigActions = []string{"create", "modify", "delete"}

type countWriter struct {
	w io.Writer
	n int64
}

func (c *countWriter) Write(p []byte) (int, error) {
	c.n += int64(len(p))
	if c.w == nil {
		return len(p), nil
	}
	return c.w.Write(p)
}

// Write streams the document to w (nil: only count) and returns its size in bytes.
func (b Big) Write(w io.Writer) (int64, error) {
	cw := &countWriter{w: w}
	bw := bufio.NewWriterSize(cw, 64<<10)
	x := &XW{}
	flush := func() error {
		_, err := bw.WriteString(x.sb.String())
		x.sb.Reset()
		return err
	}
	x.prolog()
	root := "osm"
	if b.Kind == "change" {
		root = "osmChange"
	}
	x.open(root, rootAttrs("0.6", apiGenerator, apiCopyright, apiAttribution, apiLicense), false)
	x.sep()
	if b.Kind == "map" {
		x.osmBody(&osm.OSM{Bounds: BigBounds()})
	}
	for i := 0; i < b.Nodes; i++ {
		if b.Kind == "change" {
			x.open(BigActions[i%3], nil, false)
			x.node(BigNode(i))
			x.close(BigActions[i%3])
		} else {
			x.node(BigNode(i))
		}
		if i%64 == 63 {
			if err := flush(); err != nil {
				return cw.n, err
			}
		}
	}
	for j := 0; j < b.Ways(); j++ {
		x.way(BigWay(j))
		if j%64 == 63 {
			if err := flush(); err != nil {
				return cw.n, err
			}
		}
	}
	x.sb.WriteString("</" + root + ">\n")
	if err := flush(); err != nil {
		return cw.n, err
	}
	err := bw.Flush()
	return cw.n, err
}

// BigOfSize returns an answer of the kind whose document is at least bytes long (and at most
// a few elements longer), and its exact size.
func BigOfSize(kind string, bytes int64) (Big, int64) {
	size := func(n int) int64 {
		s, _ := Big{Kind: kind, Nodes: n}.Write(nil)
		return s
	}
	// the size is close to linear in the node count: estimate, then correct upwards
	base, probe := size(0), size(4096)
	per := float64(probe-base) / 4096
	n := int(float64(bytes-base)/per) - 8
	if n < 0 {
		n = 0
	}
	got := size(n)
	for got < bytes {
		n += int(float64(bytes-got)/per) + 1
		got = size(n)
	}
	return Big{Kind: kind, Nodes: n}, got
}
