package fw

import "testing"

func TestClassifyDump(t *testing.T) {
	quit := "goroutine 0 gp=0x9b77a0 m=0 mp=0x9b8420 [idle]:\nruntime.futex()\n\ngoroutine 1 gp=0xc0000061c0 m=nil [chan receive]:\ngithub.com/paulmach/osm/osmpbf.(*decoder).Next(0xc00012f520)\n\t/repo/osmpbf/decode.go:1\nverif/internal/props.c07Endless()\n\ngoroutine 37 gp=0xc00234ce00 m=nil [semacquire]:\ngithub.com/paulmach/osm/osmpbf.(*decoder).Close()\n"
	blocked, sum := ClassifyDump(quit)
	if !blocked || len(sum) != 2 {
		t.Fatalf("SIGQUIT form: blocked=%v summary=%v", blocked, sum)
	}
	short := "goroutine 1 [chan receive]:\ngithub.com/paulmach/osm/osmpbf.(*decoder).Next()\n\ngoroutine 5 [runnable]:\ngithub.com/paulmach/osm/osmpbf.(*dataDecoder).Decode()\n"
	blocked, sum = ClassifyDump(short)
	if blocked || len(sum) != 2 {
		t.Fatalf("short form: blocked=%v summary=%v", blocked, sum)
	}
}
