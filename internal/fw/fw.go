// Package fw is the runtime-monitoring framework shared by all property checks:
// deterministic case lists, child-process execution with crash / hang isolation,
// race-log collection, evidence files, replay files and the known-findings matcher.
package fw

import (
	"crypto/sha1"
	"encoding/hex"
	"encoding/json"
	"fmt"
	"sort"
	"sync"
)

// Case is one generated input / history / schedule plan. It is fully determined by
// (property, tier, VERIF_SEED, index); the heavy input is regenerated from Seed and the
// parameters inside Exec, so a replay file only has to carry the Case itself.
type Case struct {
	Idx     int               `json:"idx"`
	Kind    string            `json:"kind"`
	Variant string            `json:"variant,omitempty"` // build variant that must execute it ("" = plain)
	Seed    uint64            `json:"seed"`
	P       map[string]int64  `json:"p,omitempty"`
	S       map[string]string `json:"s,omitempty"`
}

// Int returns integer parameter k (0 when absent).
func (c Case) Int(k string) int64 { return c.P[k] }

// Str returns string parameter k ("" when absent).
func (c Case) Str(k string) string { return c.S[k] }

// Violation is one refuting observation.
type Violation struct {
	// Key identifies the failing input / call site / history independent of seed and
	// case index. It is what known_findings.json lists.
	Key    string `json:"key"`
	What   string `json:"what"`
	Detail any    `json:"detail,omitempty"`
}

// Result is what the monitors observed while executing one case.
type Result struct {
	Evals        int64               `json:"evals,omitempty"`  // oracle evaluations (>=1 per executed case)
	Events       int64               `json:"events,omitempty"` // monitor events observed
	Sigs         []string            `json:"sigs,omitempty"`   // feature signatures of non-trivial sub-cases
	Sets         map[string][]string `json:"sets,omitempty"`   // named sets, unioned across cases (distinct counts)
	Counts       map[string]int64    `json:"counts,omitempty"` // named counters, summed
	Max          map[string]int64    `json:"max,omitempty"`    // named maxima
	Violations   []Violation         `json:"violations,omitempty"`
	Inconclusive []string            `json:"inconclusive,omitempty"`
	Sample       any                 `json:"sample,omitempty"`
	RaceReports  []string            `json:"race_reports,omitempty"`
	// Poisoned: the case left something behind in this process that cannot be stopped (a
	// goroutine spinning inside the library); the child ends after reporting the case and the
	// supervisor runs the remaining cases in a fresh process.
	Poisoned bool `json:"poisoned,omitempty"`
	mu       sync.Mutex
}

// NewResult returns an empty result.
func NewResult() *Result {
	return &Result{Sets: map[string][]string{}, Counts: map[string]int64{}, Max: map[string]int64{}}
}

// Eval records one oracle evaluation with the given signature ("" = trivial).
func (r *Result) Eval(sig string) {
	r.mu.Lock()
	defer r.mu.Unlock()
	r.Evals++
	if sig != "" {
		r.Sigs = append(r.Sigs, sig)
	}
}

// Event counts n monitor events.
func (r *Result) Event(n int64) {
	r.mu.Lock()
	r.Events += n
	r.mu.Unlock()
}

// Add adds n to a named counter.
func (r *Result) Add(name string, n int64) {
	r.mu.Lock()
	r.Counts[name] += n
	r.mu.Unlock()
}

// SetMax raises a named maximum.
func (r *Result) SetMax(name string, v int64) {
	r.mu.Lock()
	if cur, ok := r.Max[name]; !ok || v > cur {
		r.Max[name] = v
	}
	r.mu.Unlock()
}

// Put adds a member to a named set.
func (r *Result) Put(name, member string) {
	r.mu.Lock()
	r.Sets[name] = append(r.Sets[name], member)
	r.mu.Unlock()
}

// Violate records a violation.
func (r *Result) Violate(key, what string, detail any) {
	r.mu.Lock()
	r.Violations = append(r.Violations, Violation{Key: key, What: what, Detail: detail})
	r.mu.Unlock()
}

// Violatef records a violation with a formatted description and no detail.
func (r *Result) Violatef(key, format string, a ...any) {
	r.Violate(key, fmt.Sprintf(format, a...), nil)
}

// Inconc records an inconclusive observation.
func (r *Result) Inconc(format string, a ...any) {
	r.mu.Lock()
	r.Inconclusive = append(r.Inconclusive, fmt.Sprintf(format, a...))
	r.mu.Unlock()
}

// Failed reports whether any violation has been recorded.
func (r *Result) Failed() bool {
	r.mu.Lock()
	defer r.mu.Unlock()
	return len(r.Violations) > 0
}

// Prop describes one property check.
type Prop struct {
	ID          string
	Level       string // exploration | fault_enumeration | ...
	Rule        string // how cases are generated and what makes one distinct / non-trivial
	Assumptions []string
	// Cases returns the fixed, PRNG-determined case list of a tier.
	Cases func(tier string, seed uint64) []Case
	// Exec executes one case against the real library and returns what was observed.
	Exec func(c Case) *Result
	// Workers is the number of child processes run in parallel (0 = default 12).
	Workers int
	// HangSeconds is the supervisor's no-progress watchdog per case (0 = default).
	HangSeconds int
	// HangIsViolation: a case whose child wedged with every goroutine blocked counts as a
	// violation (properties that promise termination); otherwise it is inconclusive.
	HangIsViolation bool
	// CrashIsViolation: a child that dies while executing a case is a violation of this
	// property (C06 promises "no crash"); otherwise the check is broken (exit 2).
	CrashIsViolation bool
	// RaceIsViolation: a race report with a library frame is a violation of this property.
	RaceIsViolation bool
	// CaseClass names the class of a case for the keys of crash / hang violations (so that a
	// crash is identified by call site and input class, not by seed). Default: Case.Kind.
	CaseClass func(c Case) string
	// Exhaustive marks the enumerated part as complete (reported in evidence).
	Exhaustive func(tier string) bool
	// Post runs in the supervisor after all cases and may add run-level observations.
	Post func(tier string, agg *Agg)
}

var registry = map[string]*Prop{}

// Register adds a property check to the registry.
func Register(p *Prop) { registry[p.ID] = p }

// Lookup finds a registered property.
func Lookup(id string) *Prop { return registry[id] }

// IDs lists the registered ids in order.
func IDs() []string {
	var ids []string
	for id := range registry {
		ids = append(ids, id)
	}
	sort.Strings(ids)
	return ids
}

// Number re-indexes a case list.
func Number(cs []Case) []Case {
	for i := range cs {
		cs[i].Idx = i
	}
	return cs
}

// HashKey gives a short stable hash for file names.
func HashKey(s string) string {
	h := sha1.Sum([]byte(s))
	return hex.EncodeToString(h[:6])
}

// JSON renders v compactly for keys and samples.
func JSON(v any) string {
	b, err := json.Marshal(v)
	if err != nil {
		return fmt.Sprintf("%+v", v)
	}
	return string(b)
}
