package fw

import (
	"encoding/json"
	"fmt"
	"os"
	"os/exec"
	"path/filepath"
	"strconv"
	"sync/atomic"
	"time"
)

var coldSeq atomic.Int64

// IsCold reports whether this process was started by RunCold for exactly one case: nothing
// of the library has run in it before the case's Exec.
func IsCold() bool { return os.Getenv("VERIF_COLD") == "1" }

// RunCold executes case c in a brand-new process of the same binary (same build variant), so
// that the case observes the library's very first use in a process (package initialisation,
// lazily built tables). It returns the result the fresh process reported; a process that died
// or wedged comes back as a violation with the given key.
func RunCold(propID string, c Case, crashKey string) *Result {
	dir := os.Getenv("VERIF_WORK")
	if dir == "" {
		dir = filepath.Join(Root, ".work", "cold")
	}
	os.MkdirAll(dir, 0o755)
	base := filepath.Join(dir, fmt.Sprintf("cold-%d-%d", os.Getpid(), coldSeq.Add(1)))
	cf, of, ef := base+".case", base+".out", base+".err"
	defer func() { os.Remove(cf); os.Remove(of); os.Remove(ef) }()
	b, _ := json.Marshal(c)
	os.WriteFile(cf, b, 0o644)
	exe, err := os.Executable()
	if err != nil {
		r := NewResult()
		r.Inconc("cannot find own executable: %v", err)
		return r
	}
	errf, _ := os.Create(ef)
	cmd := exec.Command(exe, "cold", propID, cf, of)
	cmd.Stdout, cmd.Stderr = errf, errf
	cmd.Env = append(os.Environ(), "VERIF_COLD=1")
	raceLog := ""
	if os.Getenv("VERIF_VARIANT") == "race" {
		raceLog = base + ".race"
		cmd.Env = append(cmd.Env, "GORACE=halt_on_error=0 exitcode=0 history_size=2 log_path="+raceLog)
	}
	done := make(chan error, 1)
	if err := cmd.Start(); err != nil {
		r := NewResult()
		r.Inconc("cannot start cold process: %v", err)
		return r
	}
	go func() { done <- cmd.Wait() }()
	var werr error
	select {
	case werr = <-done:
	case <-time.After(120 * time.Second):
		cmd.Process.Kill()
		werr = <-done
		errf.Close()
		r := NewResult()
		r.Inconc("cold process did not finish within the watchdog")
		return r
	}
	errf.Close()
	r := NewResult()
	ob, rerr := os.ReadFile(of)
	if rerr != nil || json.Unmarshal(ob, r) != nil {
		tail := tailFile(ef, 6000)
		r = NewResult()
		r.Evals++
		r.Violate(crashKey, "the fresh process died before reporting a result: "+fmt.Sprint(werr), trim(tail, 6000))
		return r
	}
	if r.Sets == nil {
		r.Sets = map[string][]string{}
	}
	if r.Counts == nil {
		r.Counts = map[string]int64{}
	}
	if r.Max == nil {
		r.Max = map[string]int64{}
	}
	if raceLog != "" {
		matches, _ := filepath.Glob(raceLog + ".*")
		for _, m := range matches {
			reps, _ := readRaceReports(m, 0)
			r.RaceReports = append(r.RaceReports, reps...)
			os.Remove(m)
		}
	}
	return r
}

// ColdMain is the entry point of the fresh process.
func ColdMain(propID, caseFile, outFile string) int {
	p := Lookup(propID)
	if p == nil {
		return 2
	}
	b, err := os.ReadFile(caseFile)
	if err != nil {
		return 2
	}
	var c Case
	if json.Unmarshal(b, &c) != nil {
		return 2
	}
	r, pan := safeExec(p, c)
	if pan != "" {
		r.Violate("cold/panic/"+strconv.Itoa(len(pan)%7), "panic in the fresh process", trim(pan, 4000))
	}
	ob, _ := json.Marshal(r)
	if err := os.WriteFile(outFile, ob, 0o644); err != nil {
		return 2
	}
	return 0
}
