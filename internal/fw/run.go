package fw

import (
	"bufio"
	"bytes"
	"encoding/json"
	"fmt"
	"os"
	"os/exec"
	"path/filepath"
	"regexp"
	"runtime"
	"runtime/debug"
	"sort"
	"strconv"
	"strings"
	"sync"
	"syscall"
	"time"
)

// Root is the /verif directory (where evidence/, replays/, .work/ live).
var Root = func() string {
	if r := os.Getenv("VERIF_ROOT"); r != "" {
		return r
	}
	return "/verif"
}()

// CaseViolation is a violation together with the case that produced it.
type CaseViolation struct {
	Case Case
	V    Violation
}

// Agg aggregates the results of a run.
type Agg struct {
	Prop         *Prop
	Tier         string
	Seed         uint64
	Cases        int
	Executed     int
	Evals        int64
	Events       int64
	Sigs         map[string]int
	Sets         map[string]map[string]struct{}
	Counts       map[string]int64
	Max          map[string]int64
	Violations   []CaseViolation
	Inconclusive []string
	Samples      []any
	Crashes      int
	Hangs        int
	Broken       []string
	RaceBlocks   int
	RaceDistinct map[string]string
	Extra        map[string]any
	mu           sync.Mutex
}

func newAgg(p *Prop, tier string, seed uint64) *Agg {
	return &Agg{Prop: p, Tier: tier, Seed: seed, Sigs: map[string]int{}, Sets: map[string]map[string]struct{}{},
		Counts: map[string]int64{}, Max: map[string]int64{}, RaceDistinct: map[string]string{}, Extra: map[string]any{}}
}

// SetSize returns the number of distinct members of a named set.
func (a *Agg) SetSize(name string) int { return len(a.Sets[name]) }

func (a *Agg) merge(c Case, r *Result) {
	a.mu.Lock()
	defer a.mu.Unlock()
	a.Executed++
	a.Evals += r.Evals
	a.Events += r.Events
	for _, s := range r.Sigs {
		a.Sigs[s]++
	}
	for k, ms := range r.Sets {
		m := a.Sets[k]
		if m == nil {
			m = map[string]struct{}{}
			a.Sets[k] = m
		}
		for _, x := range ms {
			m[x] = struct{}{}
		}
	}
	for k, v := range r.Counts {
		a.Counts[k] += v
	}
	for k, v := range r.Max {
		if cur, ok := a.Max[k]; !ok || v > cur {
			a.Max[k] = v
		}
	}
	for _, v := range r.Violations {
		a.Violations = append(a.Violations, CaseViolation{Case: c, V: v})
	}
	for _, s := range r.Inconclusive {
		a.Inconclusive = append(a.Inconclusive, fmt.Sprintf("case %d (%s): %s", c.Idx, c.Kind, s))
	}
	if r.Sample != nil && len(a.Samples) < 6 {
		// keep samples of distinct kinds first
		dup := false
		for _, s := range a.Samples {
			if m, ok := s.(map[string]any); ok && m["kind"] == c.Kind {
				dup = true
			}
		}
		if !dup || len(a.Samples) < 2 {
			a.Samples = append(a.Samples, map[string]any{"kind": c.Kind, "case": c, "observed": r.Sample})
		}
	}
	for _, rep := range r.RaceReports {
		a.RaceBlocks++
		sig, lib := raceSignature(rep)
		if _, seen := a.RaceDistinct[sig]; !seen {
			a.RaceDistinct[sig] = rep
			if lib {
				if a.Prop.RaceIsViolation {
					a.Violations = append(a.Violations, CaseViolation{Case: c, V: Violation{
						Key: "race:" + sig, What: "data race with a paulmach/osm frame", Detail: rep}})
				} else {
					a.Inconclusive = append(a.Inconclusive, "race report with library frame (property does not cover it): "+sig)
				}
			} else {
				a.Broken = append(a.Broken, "race report inside the harness only: "+sig)
			}
		}
	}
}

var frameRe = regexp.MustCompile(`(?m)^\s+([^\s(][^\n]*?)\(\)\n\s+(\S+):\d+`)

// raceSignature reduces a race report to its stack pair with line numbers stripped and says
// whether any access stack contains a library frame.
func raceSignature(rep string) (string, bool) {
	// split into sections at blank lines; first two sections are the two accesses
	secs := strings.Split(rep, "\n\n")
	var parts []string
	lib := false
	for i, s := range secs {
		if i >= 2 {
			break
		}
		var fr []string
		for _, m := range frameRe.FindAllStringSubmatch(s+"\n", -1) {
			fn := m[1]
			if strings.Contains(fn, "github.com/paulmach/osm") {
				lib = true
				fr = append(fr, fn) // the key names library frames only, so harness refactors do not change it
			} else if !lib && len(fr) == 0 {
				fr = append(fr, fn)
			}
		}
		if len(fr) > 6 {
			fr = fr[:6]
		}
		parts = append(parts, strings.Join(fr, "<"))
	}
	sort.Strings(parts)
	return strings.Join(parts, " || "), lib
}

// ---------------------------------------------------------------------------------------
// child side

type childLine struct {
	B *int    `json:"b,omitempty"`
	E *int    `json:"e,omitempty"`
	R *Result `json:"r,omitempty"`
	P string  `json:"panic,omitempty"`
}

// ChildMain executes the cases listed in idxFile one after another, logging BEGIN before and
// END after each, so that the supervisor can attribute a crash or hang to exactly one case.
func ChildMain(propID, tier string, seed uint64, idxFile, outFile string) int {
	p := Lookup(propID)
	if p == nil {
		fmt.Fprintln(os.Stderr, "unknown property", propID)
		return 2
	}
	raw, err := os.ReadFile(idxFile)
	if err != nil {
		fmt.Fprintln(os.Stderr, err)
		return 2
	}
	var idxs []int
	for _, f := range strings.Fields(string(raw)) {
		n, _ := strconv.Atoi(f)
		idxs = append(idxs, n)
	}
	cases := p.Cases(tier, seed)
	out, err := os.OpenFile(outFile, os.O_CREATE|os.O_WRONLY|os.O_APPEND, 0o644)
	if err != nil {
		fmt.Fprintln(os.Stderr, err)
		return 2
	}
	defer out.Close()
	raceLog := ownRaceLog()
	var raceOff int64
	for _, i := range idxs {
		if i < 0 || i >= len(cases) {
			fmt.Fprintln(os.Stderr, "case index out of range", i)
			return 2
		}
		c := cases[i]
		ii := i
		writeLine(out, childLine{B: &ii})
		fmt.Fprintf(os.Stderr, "BEGIN %d %s\n", i, JSON(c))
		r, pan := safeExec(p, c)
		if raceLog != "" {
			if reps, n := readRaceReports(raceLog, raceOff); n > raceOff {
				raceOff = n
				if r != nil {
					r.RaceReports = append(r.RaceReports, reps...)
				}
			}
		}
		writeLine(out, childLine{E: &ii, R: r, P: pan})
		if r != nil && r.Poisoned {
			out.Sync()
			os.Exit(0) // do not wait for anything: a goroutine of the case may never end
		}
	}
	return 0
}

func safeExec(p *Prop, c Case) (r *Result, pan string) {
	defer func() {
		if x := recover(); x != nil {
			pan = fmt.Sprintf("panic: %v\n%s", x, debug.Stack())
			if r == nil {
				r = NewResult()
			}
		}
	}()
	r = p.Exec(c)
	if r == nil {
		r = NewResult()
	}
	return r, ""
}

func writeLine(f *os.File, l childLine) {
	b, err := json.Marshal(l)
	if err != nil {
		b, _ = json.Marshal(childLine{E: l.E, P: "harness: result not serialisable: " + err.Error()})
	}
	b = append(b, '\n')
	f.Write(b)
}

func ownRaceLog() string {
	for _, kv := range strings.Fields(os.Getenv("GORACE")) {
		if strings.HasPrefix(kv, "log_path=") {
			return strings.TrimPrefix(kv, "log_path=") + "." + strconv.Itoa(os.Getpid())
		}
	}
	return ""
}

// readRaceReports returns the report blocks written to the race log after offset off.
func readRaceReports(path string, off int64) ([]string, int64) {
	b, err := os.ReadFile(path)
	if err != nil || int64(len(b)) <= off {
		return nil, off
	}
	txt := string(b[off:])
	var reps []string
	for _, blk := range strings.Split(txt, "==================") {
		if strings.Contains(blk, "WARNING: DATA RACE") {
			reps = append(reps, strings.TrimSpace(blk))
		}
	}
	return reps, int64(len(b))
}

// ---------------------------------------------------------------------------------------
// supervisor side

func variantBinary(v string) string {
	if v == "" || v == "plain" {
		return filepath.Join(Root, ".work/bin/vcheck")
	}
	return filepath.Join(Root, ".work/bin/vcheck."+v)
}

// VariantsOf lists the build variants a tier of a property needs.
func VariantsOf(p *Prop, tier string, seed uint64) []string {
	seen := map[string]bool{}
	for _, c := range p.Cases(tier, seed) {
		v := c.Variant
		if v == "" {
			v = "plain"
		}
		seen[v] = true
	}
	var vs []string
	for v := range seen {
		vs = append(vs, v)
	}
	sort.Strings(vs)
	return vs
}

type chunk struct {
	variant string
	idxs    []int
}

// RunMain is the supervisor: it shards the case list over child processes, watches them,
// merges what their monitors observed, writes evidence and replay files and returns the
// exit code (0 held, 1 violation, 2 broken check).
func RunMain(propID, tier string, seed uint64) int {
	start := time.Now()
	p := Lookup(propID)
	if p == nil {
		fmt.Fprintln(os.Stderr, "unknown property", propID)
		return 2
	}
	cases := p.Cases(tier, seed)
	agg := newAgg(p, tier, seed)
	agg.Cases = len(cases)

	work := filepath.Join(Root, ".work", "run", fmt.Sprintf("%s-%s-%d", propID, tier, os.Getpid()))
	os.RemoveAll(work)
	if err := os.MkdirAll(work, 0o755); err != nil {
		fmt.Fprintln(os.Stderr, err)
		return 2
	}
	defer os.RemoveAll(work)

	workers := p.Workers
	if workers <= 0 {
		workers = 12
	}
	if n := runtime.NumCPU(); workers > n {
		workers = n
	}
	byVar := map[string][]int{}
	for _, c := range cases {
		v := c.Variant
		if v == "" {
			v = "plain"
		}
		byVar[v] = append(byVar[v], c.Idx)
	}
	var chunks []chunk
	for v, idxs := range byVar {
		if _, err := os.Stat(variantBinary(v)); err != nil {
			fmt.Fprintf(os.Stderr, "variant binary %s missing: %v\n", variantBinary(v), err)
			return 2
		}
		// striped chunks: cheap and expensive neighbours spread evenly
		n := workers * 3
		if n > len(idxs) {
			n = len(idxs)
		}
		parts := make([][]int, n)
		for k, i := range idxs {
			parts[k%n] = append(parts[k%n], i)
		}
		for _, part := range parts {
			chunks = append(chunks, chunk{variant: v, idxs: part})
		}
	}
	sort.SliceStable(chunks, func(i, j int) bool { return len(chunks[i].idxs) > len(chunks[j].idxs) })

	jobs := make(chan chunk)
	var wg sync.WaitGroup
	var seq int64
	var seqMu sync.Mutex
	for w := 0; w < workers; w++ {
		wg.Add(1)
		go func() {
			defer wg.Done()
			for ch := range jobs {
				rest := ch.idxs
				for len(rest) > 0 {
					seqMu.Lock()
					seq++
					id := seq
					seqMu.Unlock()
					rest = runChild(p, tier, seed, cases, ch.variant, rest, work, id, agg)
				}
			}
		}()
	}
	for _, ch := range chunks {
		jobs <- ch
	}
	close(jobs)
	wg.Wait()

	if p.Post != nil {
		p.Post(tier, agg)
	}
	return finish(agg, cases, time.Since(start))
}

// runChild runs one child over idxs and returns the indices still to be executed (non-empty
// only after a crash or hang, which consumes exactly one case).
func runChild(p *Prop, tier string, seed uint64, cases []Case, variant string, idxs []int, work string, id int64, agg *Agg) []int {
	base := filepath.Join(work, fmt.Sprintf("child%d", id))
	idxFile, outFile, errFile := base+".idx", base+".out", base+".err"
	var sb strings.Builder
	for _, i := range idxs {
		fmt.Fprintf(&sb, "%d\n", i)
	}
	os.WriteFile(idxFile, []byte(sb.String()), 0o644)
	os.WriteFile(outFile, nil, 0o644)
	ef, _ := os.Create(errFile)
	cmd := exec.Command(variantBinary(variant), "child", "--prop", p.ID, "--tier", tier,
		"--seed", strconv.FormatUint(seed, 10), "--cases", idxFile, "--out", outFile)
	cmd.Stdout = ef
	cmd.Stderr = ef
	cmd.Env = append(os.Environ(), "VERIF_CHILD=1", "VERIF_VARIANT="+variant, "VERIF_WORK="+work)
	if variant == "race" {
		cmd.Env = append(cmd.Env, "GORACE=halt_on_error=0 exitcode=0 history_size=2 log_path="+base+".race")
	}
	if variant == "asan" {
		cmd.Env = append(cmd.Env, "ASAN_OPTIONS=detect_leaks=0:abort_on_error=0:halt_on_error=1")
	}
	if err := cmd.Start(); err != nil {
		ef.Close()
		agg.mu.Lock()
		agg.Broken = append(agg.Broken, "cannot start child: "+err.Error())
		agg.mu.Unlock()
		return nil
	}
	done := make(chan error, 1)
	go func() { done <- cmd.Wait() }()

	hang := time.Duration(p.HangSeconds) * time.Second
	if hang == 0 {
		hang = 180 * time.Second
	}
	var lastSize int64 = -1
	lastProgress := time.Now()
	hung := false
	var waitErr error
	tick := time.NewTicker(200 * time.Millisecond)
	defer tick.Stop()
loop:
	for {
		select {
		case waitErr = <-done:
			break loop
		case <-tick.C:
			if st, err := os.Stat(outFile); err == nil && st.Size() != lastSize {
				lastSize = st.Size()
				lastProgress = time.Now()
			}
			if time.Since(lastProgress) > hang {
				hung = true
				cmd.Process.Signal(syscall.SIGQUIT)
				select {
				case waitErr = <-done:
				case <-time.After(20 * time.Second):
					cmd.Process.Kill()
					waitErr = <-done
				}
				break loop
			}
		}
	}
	ef.Close()

	// parse what the child logged
	doneSet := map[int]bool{}
	open := -1
	f, _ := os.Open(outFile)
	if f != nil {
		sc := bufio.NewScanner(f)
		sc.Buffer(make([]byte, 1<<20), 1<<30)
		for sc.Scan() {
			var l childLine
			if err := json.Unmarshal(sc.Bytes(), &l); err != nil {
				continue
			}
			if l.B != nil {
				open = *l.B
			}
			if l.E != nil {
				i := *l.E
				doneSet[i] = true
				if open == i {
					open = -1
				}
				r := l.R
				if r == nil {
					r = NewResult()
				}
				if l.P != "" {
					recordCrash(agg, cases[i], "panic on the calling goroutine", l.P)
				}
				agg.merge(cases[i], r)
			}
		}
		f.Close()
	}
	var rest []int
	for _, i := range idxs {
		if !doneSet[i] && i != open {
			rest = append(rest, i)
		}
	}
	stderrTail := tailFile(errFile, 24000)
	switch {
	case hung && open >= 0:
		blocked, summary := ClassifyDump(stderrTail)
		agg.mu.Lock()
		agg.Hangs++
		agg.Executed++
		agg.mu.Unlock()
		if blocked && p.HangIsViolation {
			agg.mu.Lock()
			agg.Violations = append(agg.Violations, CaseViolation{Case: cases[open], V: Violation{
				Key:  "hang:" + caseClass(p, cases[open]),
				What: "scenario never finished: every library/harness goroutine is blocked (deadlock/hang)", Detail: summary}})
			agg.mu.Unlock()
		} else {
			agg.mu.Lock()
			agg.Inconclusive = append(agg.Inconclusive, fmt.Sprintf("case %d (%s): watchdog fired, goroutines still runnable or property does not promise termination: %v", open, cases[open].Kind, summary))
			agg.mu.Unlock()
		}
	case hung:
		agg.mu.Lock()
		agg.Broken = append(agg.Broken, "child hung outside any case")
		agg.mu.Unlock()
		return nil
	case open >= 0:
		// died inside a case
		recordCrash(agg, cases[open], "process died while executing the case", fmt.Sprintf("exit: %v\n%s", waitErr, stderrTail))
		agg.mu.Lock()
		agg.Executed++
		agg.mu.Unlock()
	case waitErr != nil:
		agg.mu.Lock()
		agg.Broken = append(agg.Broken, fmt.Sprintf("child failed outside any case: %v: %s", waitErr, tailFile(errFile, 2000)))
		agg.mu.Unlock()
		return nil
	}
	return rest
}

func caseClass(p *Prop, c Case) string {
	if p.CaseClass != nil {
		return p.CaseClass(c)
	}
	return c.Kind
}

// panicOrigin returns the function in which a panic / fatal error of the first goroutine of a
// trace originated, as far as the blame goes: the first frame after the runtime's own panic
// frames that belongs to the harness ("verif/...") or to the library. A panic that starts in
// harness code (also in a harness callback invoked by the library) is a defect of the check,
// never an observation about the library.
func panicOrigin(detail string) string {
	lines := strings.Split(detail, "\n")
	start := -1
	for i, l := range lines {
		if strings.HasPrefix(l, "goroutine ") && strings.HasSuffix(strings.TrimSpace(l), ":") {
			start = i + 1
			break
		}
	}
	if start < 0 {
		return ""
	}
	end := len(lines)
	for i := start; i < len(lines); i++ {
		if strings.TrimSpace(lines[i]) == "" {
			end = i
			break
		}
	}
	from := start
	for i := start; i < end; i++ {
		if strings.HasPrefix(lines[i], "panic(") {
			from = i + 1
		}
	}
	for i := from; i < end; i++ {
		l := lines[i]
		if strings.HasPrefix(l, "\t") || strings.HasPrefix(l, "created by ") {
			continue
		}
		if strings.HasPrefix(l, "verif/") || strings.HasPrefix(l, "main.") || strings.Contains(l, "github.com/paulmach/osm") {
			if j := strings.Index(l, "(0x"); j >= 0 {
				l = l[:j]
			}
			return strings.TrimRight(l, "(")
		}
	}
	return ""
}

func recordCrash(agg *Agg, c Case, what, detail string) {
	agg.mu.Lock()
	defer agg.mu.Unlock()
	agg.Crashes++
	if o := panicOrigin(detail); strings.HasPrefix(o, "verif/") || strings.HasPrefix(o, "main.") {
		agg.Broken = append(agg.Broken, fmt.Sprintf("case %d (%s): panic inside the harness (%s), not an observation about the library: %s", c.Idx, c.Kind, o, trim(detail, 3000)))
		return
	}
	if agg.Prop.CrashIsViolation {
		agg.Violations = append(agg.Violations, CaseViolation{Case: c, V: Violation{
			Key: "crash:" + crashSite(detail) + ":" + caseClass(agg.Prop, c), What: what + " (" + caseClass(agg.Prop, c) + ")", Detail: trim(detail, 6000)}})
	} else {
		agg.Broken = append(agg.Broken, fmt.Sprintf("case %d (%s) crashed: %s: %s", c.Idx, c.Kind, what, trim(detail, 3000)))
	}
}

var siteRe = regexp.MustCompile(`github\.com/paulmach/osm[^\s(]*\.[A-Za-z_(*).0-9]+`)

// crashSite extracts the first library function of a panic trace (line numbers stripped), so
// that a crash is identified by its call site.
func crashSite(detail string) string {
	if m := siteRe.FindString(detail); m != "" {
		if i := strings.Index(m, "(0x"); i >= 0 {
			m = m[:i]
		}
		return strings.TrimRight(m, "(")
	}
	return "unknown-site"
}

func trim(s string, n int) string {
	if len(s) <= n {
		return s
	}
	return s[:n/2] + "\n...\n" + s[len(s)-n/2:]
}

func tailFile(path string, n int64) string {
	b, err := os.ReadFile(path)
	if err != nil {
		return ""
	}
	if int64(len(b)) > n {
		// keep the head (panic message) and the tail
		return string(b[:n/2]) + "\n...\n" + string(b[int64(len(b))-n/2:])
	}
	return string(b)
}

// a SIGQUIT traceback prints "goroutine 1 gp=0xc000006 m=nil [semacquire]:", runtime.Stack prints
// "goroutine 1 [semacquire]:"; accept both.
var gorHead = regexp.MustCompile(`(?m)^goroutine (\d+) (?:gp=\S+ m=\S+ (?:mp=\S+ )?)?\[([^\]]+)\]:$`)

// ClassifyDump inspects a goroutine dump: it reports whether every goroutine that runs
// library or harness code is blocked for good (channel, select, semaphore, wait group),
// i.e. nothing could make progress any more, plus a one-line summary per such goroutine.
func ClassifyDump(dump string) (allBlocked bool, summary []string) {
	locs := gorHead.FindAllStringSubmatchIndex(dump, -1)
	relevant := 0
	allBlocked = true
	for k, loc := range locs {
		end := len(dump)
		if k+1 < len(locs) {
			end = locs[k+1][0]
		}
		body := dump[loc[1]:end]
		state := dump[loc[4]:loc[5]]
		if i := strings.Index(state, ","); i >= 0 {
			state = state[:i]
		}
		if !strings.Contains(body, "github.com/paulmach/osm") && !strings.Contains(body, "verif/") {
			continue
		}
		if strings.Contains(body, "os/signal.") || strings.Contains(body, "fw.runChild") {
			continue
		}
		if strings.Contains(body, "runtime.Stack(") || strings.Contains(body, "mon.Goroutines(") {
			// a harness goroutine that is taking a goroutine dump waits in semacquire for the
			// world to stop: it is working, not blocked
			relevant++
			allBlocked = false
			summary = append(summary, fmt.Sprintf("g%s [taking a goroutine dump]", dump[loc[2]:loc[3]]))
			continue
		}
		relevant++
		top := ""
		for _, ln := range strings.Split(body, "\n") {
			ln = strings.TrimSpace(ln)
			if strings.HasPrefix(ln, "github.com/paulmach/osm") || strings.HasPrefix(ln, "verif/") {
				top = ln
				break
			}
		}
		summary = append(summary, fmt.Sprintf("g%s [%s] %s", dump[loc[2]:loc[3]], state, top))
		switch {
		case strings.HasPrefix(state, "chan "), strings.HasPrefix(state, "select"),
			strings.HasPrefix(state, "semacquire"), strings.HasPrefix(state, "sync."):
		default:
			allBlocked = false
		}
	}
	if relevant == 0 {
		allBlocked = false
	}
	return allBlocked, summary
}

// ---------------------------------------------------------------------------------------
// evidence, replays, known findings

type knownFile struct {
	Findings []KnownFinding `json:"findings"`
}

// KnownFinding is one entry of known_findings.json.
type KnownFinding struct {
	Status   string   `json:"status"` // open | fixed
	Property string   `json:"property"`
	Commit   string   `json:"commit,omitempty"`
	What     string   `json:"what"`
	Line     string   `json:"line,omitempty"` // the "fixed: property=<id> <commit> <what failed>" line
	Keys     []string `json:"keys,omitempty"` // exact violation keys this (open) finding covers
}

func loadKnown() []KnownFinding {
	b, err := os.ReadFile(filepath.Join(Root, "known_findings.json"))
	if err != nil {
		return nil
	}
	var kf knownFile
	if err := json.Unmarshal(b, &kf); err != nil {
		fmt.Fprintln(os.Stderr, "known_findings.json unreadable:", err)
		return nil
	}
	return kf.Findings
}

func finish(agg *Agg, cases []Case, wall time.Duration) int {
	p := agg.Prop
	known := loadKnown()
	openKeys := map[string]*KnownFinding{}
	for i := range known {
		k := &known[i]
		if k.Status == "open" && k.Property == p.ID {
			for _, key := range k.Keys {
				openKeys[key] = k
			}
		}
	}
	// split violations into known findings and new ones
	knownSeen := map[*KnownFinding]int{}
	var fresh []CaseViolation
	seenKey := map[string]bool{}
	for _, cv := range agg.Violations {
		if k, ok := openKeys[cv.V.Key]; ok {
			knownSeen[k]++
			continue
		}
		if seenKey[cv.V.Key] {
			continue
		}
		seenKey[cv.V.Key] = true
		fresh = append(fresh, cv)
	}
	for k, n := range knownSeen {
		fmt.Printf("KNOWN-FINDING: property=%s %s (re-observed on %d listed inputs)\n", p.ID, k.What, n)
	}

	distinct := 0
	for range agg.Sigs {
		distinct++
	}
	cov := map[string]any{
		"evaluations":         agg.Evals,
		"distinct_nontrivial": distinct,
		"rule":                p.Rule,
		"samples":             agg.Samples,
		"cases":               agg.Cases,
		"cases_executed":      agg.Executed,
		"monitor_events":      agg.Events,
		"inconclusive":        len(agg.Inconclusive),
		"crashes":             agg.Crashes,
		"hangs":               agg.Hangs,
		"race_report_blocks":  agg.RaceBlocks,
		"race_distinct":       len(agg.RaceDistinct),
		"known_findings_seen": len(knownSeen),
	}
	if p.Exhaustive != nil {
		cov["exhaustive"] = p.Exhaustive(agg.Tier)
	}
	for k, m := range agg.Sets {
		cov[k+"_distinct"] = len(m)
	}
	for k, v := range agg.Counts {
		cov[k] = v
	}
	for k, v := range agg.Max {
		cov[k+"_max"] = v
	}
	for k, v := range agg.Extra {
		cov[k] = v
	}
	if len(agg.Inconclusive) > 0 {
		n := len(agg.Inconclusive)
		if n > 5 {
			n = 5
		}
		cov["inconclusive_examples"] = agg.Inconclusive[:n]
	}
	// signature histogram (top 12) so a reader can see what the distinct classes are
	type kv struct {
		k string
		n int
	}
	var hist []kv
	for k, n := range agg.Sigs {
		hist = append(hist, kv{k, n})
	}
	sort.Slice(hist, func(i, j int) bool {
		if hist[i].n != hist[j].n {
			return hist[i].n > hist[j].n
		}
		return hist[i].k < hist[j].k
	})
	top := map[string]int{}
	for i, h := range hist {
		if i >= 12 {
			break
		}
		top[h.k] = h.n
	}
	cov["signature_histogram_top"] = top

	ev := map[string]any{
		"property_id": p.ID,
		"tier":        agg.Tier,
		"seed":        int64(agg.Seed),
		"level":       p.Level,
		"coverage":    cov,
		"assumptions": p.Assumptions,
		"wall_s":      wall.Seconds(),
		"violations":  len(fresh),
	}
	os.MkdirAll(filepath.Join(Root, "evidence"), 0o755)
	eb, _ := json.MarshalIndent(ev, "", " ")
	if err := os.WriteFile(filepath.Join(Root, "evidence", p.ID+".json"), append(eb, '\n'), 0o644); err != nil {
		fmt.Fprintln(os.Stderr, "cannot write evidence:", err)
		return 2
	}

	for i, s := range agg.Inconclusive {
		if i >= 10 {
			fmt.Printf("INCONCLUSIVE property=%s ... %d more\n", p.ID, len(agg.Inconclusive)-i)
			break
		}
		fmt.Printf("INCONCLUSIVE property=%s %s\n", p.ID, s)
	}
	fmt.Printf("SUMMARY property=%s tier=%s seed=%d cases=%d executed=%d evaluations=%d distinct=%d events=%d violations=%d known=%d inconclusive=%d crashes=%d hangs=%d races=%d wall=%.1fs\n",
		p.ID, agg.Tier, agg.Seed, agg.Cases, agg.Executed, agg.Evals, distinct, agg.Events, len(fresh), len(knownSeen),
		len(agg.Inconclusive), agg.Crashes, agg.Hangs, agg.RaceBlocks, wall.Seconds())
	var keys []string
	for k := range cov {
		keys = append(keys, k)
	}
	sort.Strings(keys)
	for _, k := range keys {
		switch k {
		case "samples", "rule", "signature_histogram_top", "inconclusive_examples":
		default:
			fmt.Printf("  observed %s=%v\n", k, cov[k])
		}
	}

	if len(fresh) > 0 {
		dir := filepath.Join(Root, "replays", p.ID)
		os.MkdirAll(dir, 0o755)
		for i, cv := range fresh {
			if i >= 80 {
				fmt.Printf("... %d further violations not written out\n", len(fresh)-i)
				break
			}
			rp := map[string]any{"property": p.ID, "tier": agg.Tier, "seed": agg.Seed, "case": cv.Case,
				"key": cv.V.Key, "what": cv.V.What, "detail": cv.V.Detail}
			b, _ := json.MarshalIndent(rp, "", " ")
			path := filepath.Join(dir, HashKey(cv.V.Key)+".json")
			os.WriteFile(path, append(b, '\n'), 0o644)
			fmt.Printf("VIOLATION property=%s replay=%s\n  key: %s\n  what: %s\n", p.ID, path, trim(cv.V.Key, 400), trim(cv.V.What, 600))
		}
		return 1
	}
	if len(agg.Broken) > 0 {
		for i, b := range agg.Broken {
			if i >= 8 {
				break
			}
			fmt.Printf("BROKEN-CHECK property=%s %s\n", p.ID, b)
		}
		return 2
	}
	if agg.Evals == 0 || agg.Executed < agg.Cases {
		fmt.Printf("BROKEN-CHECK property=%s monitors observed nothing or cases were lost (executed %d of %d, evaluations %d)\n", p.ID, agg.Executed, agg.Cases, agg.Evals)
		return 2
	}
	return 0
}

// ReplayMain re-executes the single case stored in a replay file, in this process.
func ReplayMain(path string) int {
	b, err := os.ReadFile(path)
	if err != nil {
		fmt.Fprintln(os.Stderr, err)
		return 2
	}
	var rp struct {
		Property string `json:"property"`
		Case     Case   `json:"case"`
		Key      string `json:"key"`
	}
	if err := json.Unmarshal(b, &rp); err != nil {
		fmt.Fprintln(os.Stderr, err)
		return 2
	}
	p := Lookup(rp.Property)
	if p == nil {
		fmt.Fprintln(os.Stderr, "unknown property", rp.Property)
		return 2
	}
	fmt.Printf("replaying %s case %s\n", rp.Property, JSON(rp.Case))
	r, pan := safeExec(p, rp.Case)
	if pan != "" {
		fmt.Println(pan)
		fmt.Printf("VIOLATION property=%s replay=%s\n", rp.Property, path)
		return 1
	}
	out, _ := json.MarshalIndent(r, "", " ")
	var buf bytes.Buffer
	buf.Write(out)
	fmt.Println(trim(buf.String(), 20000))
	if len(r.Violations) > 0 {
		fmt.Printf("VIOLATION property=%s replay=%s\n", rp.Property, path)
		return 1
	}
	fmt.Println("no violation on replay")
	return 0
}
