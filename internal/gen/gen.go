// Package gen holds PRNG plumbing and the small generators shared by the checks.
package gen

import (
	"math/rand/v2"
	"strings"
	"time"
)

// R is a deterministic PRNG.
type R struct{ *rand.Rand }

// New derives a PRNG from a seed and a stream label.
func New(seed uint64, label string) *R {
	h := uint64(1469598103934665603)
	for i := 0; i < len(label); i++ {
		h ^= uint64(label[i])
		h *= 1099511628211
	}
	return &R{rand.New(rand.NewPCG(seed, h))}
}

// Sub derives a child seed for case i of a stream.
func Sub(seed uint64, label string, i int) uint64 {
	r := New(seed, label)
	x := r.Uint64()
	// splitmix step with the index
	z := x + uint64(i+1)*0x9E3779B97F4A7C15
	z = (z ^ (z >> 30)) * 0xBF58476D1CE4E5B9
	z = (z ^ (z >> 27)) * 0x94D049BB133111EB
	return z ^ (z >> 31)
}

// Intn returns a value in [0,n).
func (r *R) Intn(n int) int {
	if n <= 0 {
		return 0
	}
	return r.IntN(n)
}

// Range returns a value in [lo,hi].
func (r *R) Range(lo, hi int) int {
	if hi <= lo {
		return lo
	}
	return lo + r.IntN(hi-lo+1)
}

// Bool returns true with probability 1/2.
func (r *R) Bool() bool { return r.IntN(2) == 0 }

// Chance returns true with probability p.
func (r *R) Chance(p float64) bool { return r.Float64() < p }

// Pick picks one of the ints.
func (r *R) Pick(xs ...int) int { return xs[r.IntN(len(xs))] }

// PickS picks one of the strings.
func (r *R) PickS(xs ...string) string { return xs[r.IntN(len(xs))] }

// Int64Range returns a value in [lo,hi].
func (r *R) Int64Range(lo, hi int64) int64 {
	if hi <= lo {
		return lo
	}
	return lo + r.Int64N(hi-lo+1)
}

// Perm returns a random permutation of 0..n-1.
func (r *R) Perm(n int) []int { return r.Rand.Perm(n) }

var alphabets = []string{
	"abcdefghijklmnopqrstuvwxyz",
	"ABCDEFGHIJKLMNOPQRSTUVWXYZ0123456789_:-",
	" <>&\"'",     // XML / JSON specials
	"äöüßéèñçøåÆ", // 2-byte UTF-8
	"日本語中文한국어ภาษาไทย", // 3-byte UTF-8
	"😀🗺🚲𝄞",                // 4-byte UTF-8
	"\\/;=,.{}[]()#%+*?!", // punctuation
}

// Str returns a random valid UTF-8 string of 0..maxRunes runes that XML 1.0 and JSON can
// carry (no control characters other than those in extra).
func (r *R) Str(maxRunes int) string {
	n := r.Intn(maxRunes + 1)
	var sb strings.Builder
	for i := 0; i < n; i++ {
		a := []rune(alphabets[r.weightedAlphabet()])
		sb.WriteRune(a[r.Intn(len(a))])
	}
	return sb.String()
}

func (r *R) weightedAlphabet() int {
	if r.Chance(0.55) {
		return 0
	}
	return r.Intn(len(alphabets))
}

// StrNonEmpty is Str with at least one rune.
func (r *R) StrNonEmpty(maxRunes int) string {
	for {
		if s := r.Str(maxRunes); s != "" {
			return s
		}
	}
}

// Word returns a short lower-case ascii identifier.
func (r *R) Word() string {
	n := r.Range(1, 8)
	b := make([]byte, n)
	for i := range b {
		b[i] = byte('a' + r.Intn(26))
	}
	return string(b)
}

// StrWS is Str that may also contain tab, newline and carriage return.
func (r *R) StrWS(maxRunes int) string {
	s := []rune(r.Str(maxRunes))
	for i := range s {
		if r.Chance(0.08) {
			s[i] = []rune{'\t', '\n', '\r'}[r.Intn(3)]
		}
	}
	return string(s)
}

// Time returns a UTC instant with whole seconds between 2005 and 2030.
func (r *R) Time() time.Time {
	return time.Unix(r.Int64Range(1104537600, 1893456000), 0).UTC()
}

// TimeNanos returns a UTC instant with a nanosecond fraction.
func (r *R) TimeNanos() time.Time {
	return time.Unix(r.Int64Range(1104537600, 1893456000), int64(r.Intn(1_000_000_000))).UTC()
}

// Coord returns a coordinate with at most 7 decimals in [-lim,lim].
func (r *R) Coord(lim int) float64 {
	v := r.Int64Range(int64(-lim)*10_000_000, int64(lim)*10_000_000)
	return float64(v) / 1e7
}

// Shuffle shuffles n elements.
func (r *R) Shuffle(n int, swap func(i, j int)) { r.Rand.Shuffle(n, swap) }
