package xmlw

// vocab.go: the OSM XML vocabulary (API 0.6 documents, osmChange, Overpass augmented diffs,
// notes and user details) plus the annotation attributes paulmach/osm documents on its
// structs (committed, update, nd/member version/changeset/lat/lon, orientation). Written by
// hand; used to check that marshalled text only uses known element and attribute names in
// the right places.

import (
	"bytes"
	"encoding/xml"
	"fmt"
	"io"
	"strings"
)

type vocabEntry struct {
	attrs string // space separated
	kids  string // space separated
	text  bool   // character data allowed
}

const metaAttrs = "id user uid visible version changeset timestamp committed"
const objectKids = "bounds node way relation changeset note user"

// keys are "parent/name" where the meaning depends on the parent, else "name".
var vocab = map[string]vocabEntry{
	"/osm":       {attrs: "version generator copyright attribution license", kids: objectKids + " action"},
	"/osmChange": {attrs: "version generator copyright attribution license", kids: "create modify delete"},
	"create":     {kids: objectKids},
	"modify":     {kids: objectKids},
	"delete":     {kids: objectKids},
	"action":     {attrs: "type", kids: "node way relation old new"},
	"old":        {kids: objectKids},
	"new":        {kids: objectKids},

	"bounds":   {attrs: "minlat minlon maxlat maxlon"},
	"node":     {attrs: metaAttrs + " lat lon", kids: "tag"},
	"way":      {attrs: metaAttrs, kids: "nd tag update bounds"},
	"relation": {attrs: metaAttrs, kids: "member tag update bounds"},
	"tag":      {attrs: "k v"},
	"nd":       {attrs: "ref version changeset lat lon"},
	"member":   {attrs: "type ref role version changeset lat lon orientation", kids: "nd"},
	"update":   {attrs: "index version timestamp changeset lat lon reverse"},

	"changeset": {attrs: "id user uid created_at closed_at open num_changes min_lat max_lat min_lon max_lon comments_count",
		kids: "tag discussion"},
	"discussion":         {kids: "comment"},
	"discussion/comment": {attrs: "user uid date", kids: "text"},
	"comment/text":       {text: true},

	"note":             {attrs: "lat lon", kids: "id url comment_url close_url reopen_url date_created date_closed status comments"},
	"note/id":          {text: true},
	"url":              {text: true},
	"comment_url":      {text: true},
	"close_url":        {text: true},
	"reopen_url":       {text: true},
	"date_created":     {text: true},
	"date_closed":      {text: true},
	"status":           {text: true},
	"comments":         {kids: "comment"},
	"comments/comment": {kids: "date uid user user_url action text html"},
	"comment/date":     {text: true},
	"comment/uid":      {text: true},
	"comment/user":     {text: true},
	"comment/user_url": {text: true},
	"comment/action":   {text: true},
	"comment/html":     {text: true},

	"user":              {attrs: "id display_name account_created", kids: "description img changesets traces home languages blocks messages"},
	"description":       {text: true},
	"img":               {attrs: "href"},
	"changesets":        {attrs: "count"},
	"traces":            {attrs: "count"},
	"home":              {attrs: "lat lon zoom"},
	"languages":         {kids: "lang"},
	"lang":              {text: true},
	"blocks":            {kids: "received"},
	"blocks/received":   {attrs: "count active"},
	"messages":          {kids: "received sent"},
	"messages/received": {attrs: "count unread"},
	"sent":              {attrs: "count"},
}

func has(list, name string) bool {
	for _, f := range strings.Fields(list) {
		if f == name {
			return true
		}
	}
	return false
}

func lookup(parent, name string) (vocabEntry, bool) {
	if e, ok := vocab[parent+"/"+name]; ok {
		return e, true
	}
	e, ok := vocab[name]
	return e, ok
}

// VocabIssue is one use of a name outside the vocabulary.
type VocabIssue struct {
	Class string // element:<name> | attr:<element>.<name> | text:<element>
	Where string // path of the element
}

// ObjectPath is the position of one object element (an element with an object name that is
// not nested inside another object element) in a text.
type ObjectPath struct {
	Kind string   // bounds|node|...
	Path []string // names of the ancestors, root first
	// ActionIdx is the 0-based index of the enclosing <action> among its siblings (-1 if none).
	ActionIdx int
}

// rootNames are the names a marshalled value may have as its document element.
var rootNames = map[string]bool{"osm": true, "osmChange": true, "bounds": true, "node": true, "way": true, "relation": true,
	"changeset": true, "note": true, "user": true}

var objectNames = map[string]bool{"bounds": true, "node": true, "way": true, "relation": true, "changeset": true, "note": true, "user": true}

// CheckVocabulary tokenises text (encoding/xml's raw tokenizer; no library code involved) and
// reports every element or attribute name outside the vocabulary, non-blank character data
// where the vocabulary has none, and the object elements in document order.
//
// rootAs maps a document-element name to the vocabulary entry (a key of the table) it is to be
// read as; used for document elements the check deliberately does not judge (a lone Bounds,
// parts of values marshalled on their own; see notes/C04.md); nil for none.
func CheckVocabulary(text []byte, rootAs map[string]string) (issues []VocabIssue, objects []ObjectPath, err error) {
	dec := xml.NewDecoder(bytes.NewReader(text))
	type frame struct {
		name    string
		entry   vocabEntry
		known   bool
		inObj   bool
		actions int
	}
	var stack []frame
	path := func() string {
		var p []string
		for _, f := range stack {
			p = append(p, f.name)
		}
		return strings.Join(p, "/")
	}
	for {
		tok, terr := dec.RawToken()
		if terr == io.EOF {
			break
		}
		if terr != nil {
			return issues, objects, terr
		}
		switch t := tok.(type) {
		case xml.StartElement:
			name := t.Name.Local
			if t.Name.Space != "" {
				name = t.Name.Space + ":" + name
			}
			var ent vocabEntry
			var known bool
			parentInObj := false
			actionIdx := -1
			if len(stack) == 0 {
				if as, ok := rootAs[name]; ok {
					// read as the given vocabulary entry ("bounds", "comments/comment", ...)
					ent, known = vocab[as]
					name = as[strings.LastIndexByte(as, '/')+1:]
				} else if rootNames[name] {
					ent, known = lookup("", name) // "/osm", "/osmChange" or an object entry
				}
			} else {
				par := &stack[len(stack)-1]
				parentInObj = par.inObj
				if par.known && has(par.entry.kids, name) {
					ent, known = lookup(par.name, name)
				}
				if name == "action" {
					par.actions++
				}
			}
			if !known {
				issues = append(issues, VocabIssue{Class: "element:" + name, Where: path()})
			}
			for _, a := range t.Attr {
				an := a.Name.Local
				if a.Name.Space != "" {
					an = a.Name.Space + ":" + an
				}
				if known && !has(ent.attrs, an) {
					issues = append(issues, VocabIssue{Class: "attr:" + name + "." + an, Where: path()})
				}
			}
			isObj := known && objectNames[name] && !parentInObj
			if isObj {
				var p []string
				for _, f := range stack {
					p = append(p, f.name)
				}
				for i := len(stack) - 1; i >= 0; i-- {
					if stack[i].name == "action" && i > 0 {
						actionIdx = stack[i-1].actions - 1
					}
				}
				objects = append(objects, ObjectPath{Kind: name, Path: p, ActionIdx: actionIdx})
			}
			stack = append(stack, frame{name: name, entry: ent, known: known, inObj: parentInObj || isObj})
		case xml.EndElement:
			if len(stack) == 0 {
				return issues, objects, fmt.Errorf("unbalanced end element %s", t.Name.Local)
			}
			stack = stack[:len(stack)-1]
		case xml.CharData:
			if len(stack) > 0 && len(bytes.TrimSpace(t)) > 0 {
				top := stack[len(stack)-1]
				if top.known && !top.entry.text {
					issues = append(issues, VocabIssue{Class: "text:" + top.name, Where: path()})
				}
			}
		}
	}
	if len(stack) != 0 {
		return issues, objects, fmt.Errorf("unclosed element %s", stack[len(stack)-1].name)
	}
	return issues, objects, nil
}
