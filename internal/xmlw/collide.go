package xmlw

// collide.go: pairs of different, equal-length short strings that collide under the common
// 32-bit string hashes. A reader that recognises a string by a 32-bit fingerprint (plus,
// perhaps, its length) instead of by its contents returns one member of such a pair for the
// other; at the scale of real extracts (millions of distinct wikidata=Q… values) such pairs
// are inevitable, in a generated document they have to be planted. The pairs are found by a
// birthday search over 500 000 pseudo-random 8-character candidates when first asked for;
// nothing is hard-coded, and the search is deterministic.

import (
	"hash/adler32"
	"hash/crc32"
	"sync"
)

// Collision is a pair of distinct strings of equal length with equal Hash value.
type Collision struct {
	Hash string
	A, B string
}

func fnv1a32(s string) uint32 {
	h := uint32(2166136261)
	for i := 0; i < len(s); i++ {
		h ^= uint32(s[i])
		h *= 16777619
	}
	return h
}

func fnv132(s string) uint32 {
	h := uint32(2166136261)
	for i := 0; i < len(s); i++ {
		h *= 16777619
		h ^= uint32(s[i])
	}
	return h
}

func fnv1a64low(s string) uint32 {
	h := uint64(14695981039346656037)
	for i := 0; i < len(s); i++ {
		h ^= uint64(s[i])
		h *= 1099511628211
	}
	return uint32(h)
}

func fnv1a64fold(s string) uint32 {
	h := uint64(14695981039346656037)
	for i := 0; i < len(s); i++ {
		h ^= uint64(s[i])
		h *= 1099511628211
	}
	return uint32(h) ^ uint32(h>>32)
}

func mult(m uint32, init uint32) func(string) uint32 {
	return func(s string) uint32 {
		h := init
		for i := 0; i < len(s); i++ {
			h = h*m + uint32(s[i])
		}
		return h
	}
}

func sdbm(s string) uint32 {
	var h uint32
	for i := 0; i < len(s); i++ {
		h = uint32(s[i]) + (h << 6) + (h << 16) - h
	}
	return h
}

func oneAtATime(s string) uint32 {
	var h uint32
	for i := 0; i < len(s); i++ {
		h += uint32(s[i])
		h += h << 10
		h ^= h >> 6
	}
	h += h << 3
	h ^= h >> 11
	h += h << 15
	return h
}

func murmur3(s string) uint32 {
	const c1, c2 = 0xcc9e2d51, 0x1b873593
	var h uint32
	n := len(s) / 4
	for i := 0; i < n; i++ {
		k := uint32(s[4*i]) | uint32(s[4*i+1])<<8 | uint32(s[4*i+2])<<16 | uint32(s[4*i+3])<<24
		k *= c1
		k = k<<15 | k>>17
		k *= c2
		h ^= k
		h = h<<13 | h>>19
		h = h*5 + 0xe6546b64
	}
	var k uint32
	tail := s[4*n:]
	switch len(tail) {
	case 3:
		k ^= uint32(tail[2]) << 16
		fallthrough
	case 2:
		k ^= uint32(tail[1]) << 8
		fallthrough
	case 1:
		k ^= uint32(tail[0])
		k *= c1
		k = k<<15 | k>>17
		k *= c2
		h ^= k
	}
	h ^= uint32(len(s))
	h ^= h >> 16
	h *= 0x85ebca6b
	h ^= h >> 13
	h *= 0xc2b2ae35
	h ^= h >> 16
	return h
}

var castagnoli = crc32.MakeTable(crc32.Castagnoli)

var hashes = []struct {
	name string
	f    func(string) uint32
}{
	{"fnv1a-32", fnv1a32},
	{"fnv1-32", fnv132},
	{"fnv1a-64-low32", fnv1a64low},
	{"fnv1a-64-folded", fnv1a64fold},
	{"crc32-ieee", func(s string) uint32 { return crc32.ChecksumIEEE([]byte(s)) }},
	{"crc32-castagnoli", func(s string) uint32 { return crc32.Checksum([]byte(s), castagnoli) }},
	{"adler32", func(s string) uint32 { return adler32.Checksum([]byte(s)) }},
	{"times31", mult(31, 0)},
	{"djb2", mult(33, 5381)},
	{"sdbm", sdbm},
	{"one-at-a-time", oneAtATime},
	{"murmur3-32", murmur3},
}

var (
	collOnce sync.Once
	colls    []Collision
)

// Collisions returns one colliding pair per hash function (those for which the search finds
// one — by the birthday bound practically all).
func Collisions() []Collision {
	collOnce.Do(func() {
		// candidates: 8 characters of [a-z0-9] from a fixed xorshift stream (uniform enough
		// for every hash, including the linear and the small-multiplier ones that never
		// collide on strings differing in a few digits only)
		const alphabet = "abcdefghijklmnopqrstuvwxyz0123456789"
		x := uint64(0x9E3779B97F4A7C15)
		cands := make([]string, 0, 500000)
		buf := make([]byte, 8)
		for i := 0; i < 500000; i++ {
			for k := range buf {
				x ^= x << 13
				x ^= x >> 7
				x ^= x << 17
				buf[k] = alphabet[x%36]
			}
			cands = append(cands, string(buf))
		}
		for _, h := range hashes {
			seen := make(map[uint32]string, 1<<17)
			for _, s := range cands {
				v := h.f(s)
				if prev, ok := seen[v]; ok && prev != s {
					colls = append(colls, Collision{Hash: h.name, A: prev, B: s})
					break
				}
				seen[v] = s
			}
		}
	})
	return colls
}
