package xmlw

// doc.go: the document model (explicit document order) and what a faithful decoder must
// deliver for it. The expectations are computed here, by the format's rules, never by
// running the library.

import (
	"github.com/paulmach/osm"

	"verif/internal/gen"
)

// Header holds the root attributes of <osm> / <osmChange>.
type Header struct {
	Version, Generator, Copyright, Attribution, License string
}

// Block is one <create>/<modify>/<delete> block of an osmChange.
type Block struct {
	Action  string
	Objects []osm.Object
}

// DiffItem is one child of an augmented diff's root: an action or a changeset.
type DiffItem struct {
	Changeset *osm.Changeset
	// Type is create | modify | delete. create carries Elem; the others Old and New.
	Type     string
	Elem     osm.Object
	Old, New osm.Object
}

// Doc is the model of one document.
type Doc struct {
	Kind    string // "osm" | "osmChange" | "diff"
	Header  Header
	Objects []osm.Object // Kind osm: children of the root in document order
	Blocks  []Block      // Kind osmChange
	Items   []DiffItem   // Kind diff
}

// Labelled is one object of the flat document order with the container it stands in.
type Labelled struct {
	// Label is "" below an <osm> root, create|modify|delete in an osmChange, and
	// changeset|direct|old|new in a diff.
	Label string
	// Action is the index of the enclosing diff action among the actions (-1 otherwise).
	Action int
	Obj    osm.Object
}

// Flat returns every object of the document in document order.
func (d *Doc) Flat() []Labelled {
	var out []Labelled
	switch d.Kind {
	case "osm":
		for _, o := range d.Objects {
			out = append(out, Labelled{"", -1, o})
		}
	case "osmChange":
		for _, b := range d.Blocks {
			for _, o := range b.Objects {
				out = append(out, Labelled{b.Action, -1, o})
			}
		}
	case "diff":
		ai := 0
		for _, it := range d.Items {
			switch {
			case it.Changeset != nil:
				out = append(out, Labelled{"changeset", -1, it.Changeset})
				continue
			case it.Type == "create":
				out = append(out, Labelled{"direct", ai, it.Elem})
			default:
				out = append(out, Labelled{"old", ai, it.Old}, Labelled{"new", ai, it.New})
			}
			ai++
		}
	}
	return out
}

// AddTo appends an object to the per-kind sequences of an osm.OSM (harness code).
func AddTo(o *osm.OSM, obj osm.Object) {
	switch v := obj.(type) {
	case *osm.Bounds:
		o.Bounds = v
	case *osm.Node:
		o.Nodes = append(o.Nodes, v)
	case *osm.Way:
		o.Ways = append(o.Ways, v)
	case *osm.Relation:
		o.Relations = append(o.Relations, v)
	case *osm.Changeset:
		o.Changesets = append(o.Changesets, v)
	case *osm.Note:
		o.Notes = append(o.Notes, v)
	case *osm.User:
		o.Users = append(o.Users, v)
	default:
		panic("xmlw: unknown object kind")
	}
}

// ExpectOSM is what decoding a Kind osm document as a whole must give.
func (d *Doc) ExpectOSM() *osm.OSM {
	o := &osm.OSM{Version: d.Header.Version, Generator: d.Header.Generator, Copyright: d.Header.Copyright,
		Attribution: d.Header.Attribution, License: d.Header.License}
	for _, obj := range d.Objects {
		AddTo(o, obj)
	}
	return o
}

// ExpectChange is what decoding a Kind osmChange document as a whole must give: repeated
// blocks of one action accumulate in document order.
func (d *Doc) ExpectChange() *osm.Change {
	c := &osm.Change{Version: d.Header.Version, Generator: d.Header.Generator, Copyright: d.Header.Copyright,
		Attribution: d.Header.Attribution, License: d.Header.License}
	for _, b := range d.Blocks {
		var dst **osm.OSM
		switch b.Action {
		case "create":
			dst = &c.Create
		case "modify":
			dst = &c.Modify
		case "delete":
			dst = &c.Delete
		}
		if *dst == nil {
			*dst = &osm.OSM{}
		}
		for _, obj := range b.Objects {
			AddTo(*dst, obj)
		}
	}
	return c
}

func single(obj osm.Object) *osm.OSM {
	o := &osm.OSM{}
	AddTo(o, obj)
	return o
}

// ExpectDiff is what decoding a Kind diff document as a whole must give.
func (d *Doc) ExpectDiff() *osm.Diff {
	df := &osm.Diff{}
	for _, it := range d.Items {
		if it.Changeset != nil {
			df.Changesets = append(df.Changesets, it.Changeset)
			continue
		}
		a := osm.Action{Type: osm.ActionType(it.Type)}
		if it.Type == "create" {
			a.OSM = single(it.Elem)
		} else {
			a.Old = single(it.Old)
			a.New = single(it.New)
		}
		df.Actions = append(df.Actions, a)
	}
	return df
}

// Tree builds the element tree of the document.
func (d *Doc) Tree(b *Builder) *Elem {
	hdr := func() []Attr {
		var as []Attr
		b.opt(&as, "version", d.Header.Version == "", d.Header.Version)
		b.opt(&as, "generator", d.Header.Generator == "", d.Header.Generator)
		b.opt(&as, "copyright", d.Header.Copyright == "", d.Header.Copyright)
		b.opt(&as, "attribution", d.Header.Attribution == "", d.Header.Attribution)
		b.opt(&as, "license", d.Header.License == "", d.Header.License)
		return as
	}
	switch d.Kind {
	case "osm":
		root := &Elem{Name: "osm", Attrs: hdr(), Container: true}
		for _, o := range d.Objects {
			root.Kids = append(root.Kids, b.Object(o))
		}
		return root
	case "osmChange":
		root := &Elem{Name: "osmChange", Attrs: hdr(), Container: true}
		for _, bl := range d.Blocks {
			be := &Elem{Name: bl.Action, Container: true}
			for _, o := range bl.Objects {
				be.Kids = append(be.Kids, b.Object(o))
			}
			root.Kids = append(root.Kids, be)
		}
		return root
	case "diff":
		// the root of an augmented diff is <osm>; its version/generator attributes are not
		// part of osm.Diff and therefore plain unknown attributes for the decoder
		root := &Elem{Name: "osm", Container: true}
		if d.Header.Version != "" {
			root.Attrs = append(root.Attrs, Attr{"version", d.Header.Version})
		}
		if d.Header.Generator != "" {
			root.Attrs = append(root.Attrs, Attr{"generator", d.Header.Generator})
		}
		for _, it := range d.Items {
			if it.Changeset != nil {
				root.Kids = append(root.Kids, b.Changeset(it.Changeset))
				continue
			}
			ae := &Elem{Name: "action", Attrs: []Attr{{"type", it.Type}}, Container: true}
			if it.Type == "create" {
				ae.Kids = append(ae.Kids, b.Object(it.Elem))
			} else {
				oe := &Elem{Name: "old", Container: true, Kids: []*Elem{b.Object(it.Old)}}
				ne := &Elem{Name: "new", Container: true, Kids: []*Elem{b.Object(it.New)}}
				ae.Kids = append(ae.Kids, oe, ne)
			}
			root.Kids = append(root.Kids, ae)
		}
		return root
	}
	panic("xmlw: unknown document kind")
}

// Render serialises the document with the given noise; it returns the text, the noise
// classes that left a trace and the counts of optional parts written / omitted.
func (d *Doc) Render(r *gen.R, n Noise) (text string, used []string, present, absent int) {
	return d.render(r, n, false)
}

// RenderRawCDEnd is Render, but "]]>" inside attribute values is written literally (legal
// XML; used only by a non-asserting probe).
func (d *Doc) RenderRawCDEnd(r *gen.R, n Noise) string {
	t, _, _, _ := d.render(r, n, true)
	return t
}

func (d *Doc) render(r *gen.R, n Noise, rawCDEnd bool) (text string, used []string, present, absent int) {
	b := NewBuilder(r, n)
	tree := d.Tree(b)
	w := NewRenderer(r, n)
	w.RawCDEnd = rawCDEnd
	text = w.Doc(tree)
	for k, v := range b.Used {
		w.Used[k] += v
	}
	return text, w.UsedList(), b.Present, b.Absent
}

// Marshal serialises single objects or documents without noise (used by fake servers).
func Marshal(d *Doc) string {
	t, _, _, _ := d.Render(gen.New(1, "xmlw.marshal"), Noise{})
	return t
}
