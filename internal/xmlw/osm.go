package xmlw

// osm.go: builds element trees from osm values. The osm structs are used as plain data
// carriers (the model); names and value syntax are written by hand from the OSM XML format
// (API 0.6 documents, osmChange, Overpass augmented diffs) and the annotation attributes the
// library documents on its structs.

import (
	"strconv"
	"strings"
	"time"

	"github.com/paulmach/osm"

	"verif/internal/gen"
)

// Builder turns osm values into element trees. An optional attribute whose value is the zero
// value is either omitted or (ExplicitZero) written out; both decode to the same value.
type Builder struct {
	R *gen.R
	N Noise
	// Present / Absent count optional attributes and sub-elements written / left out.
	Present, Absent int
	// NumForms allows trailing zeros in decimal numbers.
	NumForms bool
	Used     map[string]int
}

// NewBuilder returns a builder.
func NewBuilder(r *gen.R, n Noise) *Builder {
	return &Builder{R: r, N: n, NumForms: n.ExplicitZero, Used: map[string]int{}}
}

func itoa(v int64) string { return strconv.FormatInt(v, 10) }

// Float renders a finite float as a plain decimal (no exponent).
func (b *Builder) Float(f float64) string {
	s := strconv.FormatFloat(f, 'f', -1, 64)
	if b.NumForms && b.R.Chance(0.3) {
		b.Used["numforms"]++
		if i := strings.IndexByte(s, '.'); i < 0 {
			s += ".0"
		} else if dec := len(s) - i - 1; dec < 7 {
			s += strings.Repeat("0", 7-dec)
		} else {
			s += "0"
		}
	}
	return s
}

// Time renders an instant in the API's timestamp syntax.
func Time(t time.Time) string {
	if t.Nanosecond() == 0 {
		return t.UTC().Format("2006-01-02T15:04:05Z")
	}
	return t.UTC().Format("2006-01-02T15:04:05.999999999Z")
}

// NoteDate renders an instant in the notes API syntax.
func NoteDate(t time.Time) string { return t.UTC().Format("2006-01-02 15:04:05") + " UTC" }

func boolStr(v bool) string {
	if v {
		return "true"
	}
	return "false"
}

// opt appends an optional attribute.
func (b *Builder) opt(as *[]Attr, name string, zero bool, val string) {
	if zero {
		if b.N.ExplicitZero && b.R.Chance(0.5) {
			b.Used["explicitzero"]++
			b.Present++
			*as = append(*as, Attr{name, val})
			return
		}
		b.Absent++
		return
	}
	b.Present++
	*as = append(*as, Attr{name, val})
}

// optTime appends an optional time attribute; a zero time is always left out.
func (b *Builder) optTime(as *[]Attr, name string, t time.Time) {
	if t.IsZero() {
		b.Absent++
		return
	}
	b.Present++
	*as = append(*as, Attr{name, Time(t)})
}

// interleave merges groups of children; without KidOrder the groups follow each other.
func (b *Builder) interleave(groups ...[]*Elem) []*Elem {
	var out []*Elem
	if !b.N.KidOrder {
		for _, g := range groups {
			out = append(out, g...)
		}
		return out
	}
	nonEmpty := 0
	for _, g := range groups {
		if len(g) > 0 {
			nonEmpty++
		}
	}
	if nonEmpty > 1 {
		b.Used["kidorder"]++
	}
	idx := make([]int, len(groups))
	for {
		var live []int
		for gi, g := range groups {
			if idx[gi] < len(g) {
				live = append(live, gi)
			}
		}
		if len(live) == 0 {
			return out
		}
		gi := live[b.R.Intn(len(live))]
		out = append(out, groups[gi][idx[gi]])
		idx[gi]++
	}
}

func one(e *Elem) []*Elem {
	if e == nil {
		return nil
	}
	return []*Elem{e}
}

// Tags builds <tag k v/> elements.
func (b *Builder) Tags(ts osm.Tags) []*Elem {
	var out []*Elem
	for _, t := range ts {
		out = append(out, &Elem{Name: "tag", Attrs: []Attr{{"k", t.Key}, {"v", t.Value}}})
	}
	return out
}

// Bounds builds a <bounds> element (nil for nil).
func (b *Builder) Bounds(bd *osm.Bounds) *Elem {
	if bd == nil {
		return nil
	}
	var as []Attr
	b.opt(&as, "minlat", bd.MinLat == 0, b.Float(bd.MinLat))
	b.opt(&as, "minlon", bd.MinLon == 0, b.Float(bd.MinLon))
	b.opt(&as, "maxlat", bd.MaxLat == 0, b.Float(bd.MaxLat))
	b.opt(&as, "maxlon", bd.MaxLon == 0, b.Float(bd.MaxLon))
	return &Elem{Name: "bounds", Attrs: as}
}

func (b *Builder) meta(as *[]Attr, user string, uid osm.UserID, visible bool, version int, cs osm.ChangesetID, ts time.Time, committed *time.Time) {
	b.opt(as, "version", version == 0, itoa(int64(version)))
	b.optTime(as, "timestamp", ts)
	b.opt(as, "changeset", cs == 0, itoa(int64(cs)))
	b.opt(as, "uid", uid == 0, itoa(int64(uid)))
	b.opt(as, "user", user == "", user)
	b.opt(as, "visible", !visible, boolStr(visible))
	if committed != nil {
		b.Present++
		*as = append(*as, Attr{"committed", Time(*committed)})
	} else {
		b.Absent++
	}
}

// Node builds a <node>.
func (b *Builder) Node(n *osm.Node) *Elem {
	as := []Attr{{"id", itoa(int64(n.ID))}}
	b.opt(&as, "lat", n.Lat == 0, b.Float(n.Lat))
	b.opt(&as, "lon", n.Lon == 0, b.Float(n.Lon))
	b.meta(&as, n.User, n.UserID, n.Visible, n.Version, n.ChangesetID, n.Timestamp, n.Committed)
	return &Elem{Name: "node", Attrs: as, Kids: b.Tags(n.Tags)}
}

// WayNodes builds <nd> elements.
func (b *Builder) WayNodes(ns osm.WayNodes) []*Elem {
	var out []*Elem
	for _, wn := range ns {
		as := []Attr{{"ref", itoa(int64(wn.ID))}}
		b.opt(&as, "version", wn.Version == 0, itoa(int64(wn.Version)))
		b.opt(&as, "changeset", wn.ChangesetID == 0, itoa(int64(wn.ChangesetID)))
		b.opt(&as, "lat", wn.Lat == 0, b.Float(wn.Lat))
		b.opt(&as, "lon", wn.Lon == 0, b.Float(wn.Lon))
		out = append(out, &Elem{Name: "nd", Attrs: as})
	}
	return out
}

// Updates builds <update> elements.
func (b *Builder) Updates(us osm.Updates) []*Elem {
	var out []*Elem
	for _, u := range us {
		as := []Attr{{"index", itoa(int64(u.Index))}}
		b.opt(&as, "version", u.Version == 0, itoa(int64(u.Version)))
		b.optTime(&as, "timestamp", u.Timestamp)
		b.opt(&as, "changeset", u.ChangesetID == 0, itoa(int64(u.ChangesetID)))
		b.opt(&as, "lat", u.Lat == 0, b.Float(u.Lat))
		b.opt(&as, "lon", u.Lon == 0, b.Float(u.Lon))
		b.opt(&as, "reverse", !u.Reverse, boolStr(u.Reverse))
		out = append(out, &Elem{Name: "update", Attrs: as})
	}
	return out
}

// Way builds a <way>.
func (b *Builder) Way(w *osm.Way) *Elem {
	as := []Attr{{"id", itoa(int64(w.ID))}}
	b.meta(&as, w.User, w.UserID, w.Visible, w.Version, w.ChangesetID, w.Timestamp, w.Committed)
	kids := b.interleave(one(b.Bounds(w.Bounds)), b.WayNodes(w.Nodes), b.Tags(w.Tags), b.Updates(w.Updates))
	return &Elem{Name: "way", Attrs: as, Kids: kids}
}

// Relation builds a <relation>.
func (b *Builder) Relation(r *osm.Relation) *Elem {
	as := []Attr{{"id", itoa(int64(r.ID))}}
	b.meta(&as, r.User, r.UserID, r.Visible, r.Version, r.ChangesetID, r.Timestamp, r.Committed)
	var ms []*Elem
	for _, m := range r.Members {
		ma := []Attr{{"type", string(m.Type)}, {"ref", itoa(m.Ref)}}
		b.opt(&ma, "role", m.Role == "", m.Role)
		b.opt(&ma, "version", m.Version == 0, itoa(int64(m.Version)))
		b.opt(&ma, "changeset", m.ChangesetID == 0, itoa(int64(m.ChangesetID)))
		b.opt(&ma, "lat", m.Lat == 0, b.Float(m.Lat))
		b.opt(&ma, "lon", m.Lon == 0, b.Float(m.Lon))
		b.opt(&ma, "orientation", m.Orientation == 0, itoa(int64(m.Orientation)))
		ms = append(ms, &Elem{Name: "member", Attrs: ma, Kids: b.WayNodes(m.Nodes)})
	}
	kids := b.interleave(one(b.Bounds(r.Bounds)), ms, b.Tags(r.Tags), b.Updates(r.Updates))
	return &Elem{Name: "relation", Attrs: as, Kids: kids}
}

// Changeset builds a <changeset>.
func (b *Builder) Changeset(c *osm.Changeset) *Elem {
	as := []Attr{{"id", itoa(int64(c.ID))}}
	b.opt(&as, "user", c.User == "", c.User)
	b.opt(&as, "uid", c.UserID == 0, itoa(int64(c.UserID)))
	b.optTime(&as, "created_at", c.CreatedAt)
	b.optTime(&as, "closed_at", c.ClosedAt)
	b.opt(&as, "open", !c.Open, boolStr(c.Open))
	b.opt(&as, "num_changes", c.ChangesCount == 0, itoa(int64(c.ChangesCount)))
	b.opt(&as, "min_lat", c.MinLat == 0, b.Float(c.MinLat))
	b.opt(&as, "min_lon", c.MinLon == 0, b.Float(c.MinLon))
	b.opt(&as, "max_lat", c.MaxLat == 0, b.Float(c.MaxLat))
	b.opt(&as, "max_lon", c.MaxLon == 0, b.Float(c.MaxLon))
	b.opt(&as, "comments_count", c.CommentsCount == 0, itoa(int64(c.CommentsCount)))
	var disc *Elem
	if c.Discussion != nil {
		disc = &Elem{Name: "discussion"}
		for _, cm := range c.Discussion.Comments {
			var ca []Attr
			b.optTime(&ca, "date", cm.Timestamp)
			b.opt(&ca, "uid", cm.UserID == 0, itoa(int64(cm.UserID)))
			b.opt(&ca, "user", cm.User == "", cm.User)
			ce := &Elem{Name: "comment", Attrs: ca}
			if cm.Text != "" || b.R.Bool() {
				ce.Kids = append(ce.Kids, &Elem{Name: "text", IsText: true, Text: cm.Text})
			}
			disc.Kids = append(disc.Kids, ce)
		}
	}
	return &Elem{Name: "changeset", Attrs: as, Kids: b.interleave(b.Tags(c.Tags), one(disc))}
}

// textKid appends an optional text child.
func (b *Builder) textKid(kids *[]*Elem, name string, v string) {
	if v == "" {
		if b.N.ExplicitZero && b.R.Chance(0.5) {
			b.Used["explicitzero"]++
			b.Present++
			*kids = append(*kids, &Elem{Name: name, IsText: true})
			return
		}
		b.Absent++
		return
	}
	b.Present++
	*kids = append(*kids, &Elem{Name: name, IsText: true, Text: v})
}

func (b *Builder) shuffleKids(kids []*Elem) []*Elem {
	if b.N.KidOrder && len(kids) > 1 {
		b.Used["kidorder"]++
		b.R.Shuffle(len(kids), func(i, j int) { kids[i], kids[j] = kids[j], kids[i] })
	}
	return kids
}

// Note builds a <note> (notes API layout: lat/lon attributes, everything else child elements).
func (b *Builder) Note(n *osm.Note) *Elem {
	var as []Attr
	b.opt(&as, "lat", n.Lat == 0, b.Float(n.Lat))
	b.opt(&as, "lon", n.Lon == 0, b.Float(n.Lon))
	var kids []*Elem
	if n.ID != 0 || (b.N.ExplicitZero && b.R.Bool()) {
		kids = append(kids, &Elem{Name: "id", IsText: true, Text: itoa(int64(n.ID))})
	}
	b.textKid(&kids, "url", n.URL)
	b.textKid(&kids, "comment_url", n.CommentURL)
	b.textKid(&kids, "close_url", n.CloseURL)
	b.textKid(&kids, "reopen_url", n.ReopenURL)
	if !n.DateCreated.IsZero() {
		kids = append(kids, &Elem{Name: "date_created", IsText: true, Text: NoteDate(n.DateCreated.Time), Exact: true})
	}
	if !n.DateClosed.IsZero() {
		kids = append(kids, &Elem{Name: "date_closed", IsText: true, Text: NoteDate(n.DateClosed.Time), Exact: true})
	}
	b.textKid(&kids, "status", string(n.Status))
	if len(n.Comments) > 0 || b.R.Bool() {
		cs := &Elem{Name: "comments"}
		for _, c := range n.Comments {
			var ck []*Elem
			if !c.Date.IsZero() {
				ck = append(ck, &Elem{Name: "date", IsText: true, Text: NoteDate(c.Date.Time), Exact: true})
			}
			if c.UserID != 0 || (b.N.ExplicitZero && b.R.Bool()) {
				ck = append(ck, &Elem{Name: "uid", IsText: true, Text: itoa(int64(c.UserID)), Exact: true})
			}
			b.textKid(&ck, "user", c.User)
			b.textKid(&ck, "user_url", c.UserURL)
			b.textKid(&ck, "action", string(c.Action))
			b.textKid(&ck, "text", c.Text)
			b.textKid(&ck, "html", c.HTML)
			cs.Kids = append(cs.Kids, &Elem{Name: "comment", Kids: b.shuffleKids(ck)})
		}
		kids = append(kids, cs)
	}
	// numbers are written without anything in between (a decoder may or may not trim)
	for _, k := range kids {
		if k.Name == "id" {
			k.Exact = true
		}
	}
	return &Elem{Name: "note", Attrs: as, Kids: b.shuffleKids(kids)}
}

// User builds a <user> (API user details layout).
func (b *Builder) User(u *osm.User) *Elem {
	as := []Attr{{"id", itoa(int64(u.ID))}}
	b.opt(&as, "display_name", u.Name == "", u.Name)
	b.optTime(&as, "account_created", u.CreatedAt)
	var kids []*Elem
	b.textKid(&kids, "description", u.Description)
	sub := func(name string, allZero bool, attrs func() []Attr) *Elem {
		if allZero && !(b.N.ExplicitZero && b.R.Bool()) {
			b.Absent++
			return nil
		}
		b.Present++
		return &Elem{Name: name, Attrs: attrs()}
	}
	if e := sub("img", u.Img.Href == "", func() []Attr {
		var a []Attr
		b.opt(&a, "href", u.Img.Href == "", u.Img.Href)
		return a
	}); e != nil {
		kids = append(kids, e)
	}
	if e := sub("changesets", u.Changesets.Count == 0, func() []Attr {
		var a []Attr
		b.opt(&a, "count", u.Changesets.Count == 0, itoa(int64(u.Changesets.Count)))
		return a
	}); e != nil {
		kids = append(kids, e)
	}
	if e := sub("traces", u.Traces.Count == 0, func() []Attr {
		var a []Attr
		b.opt(&a, "count", u.Traces.Count == 0, itoa(int64(u.Traces.Count)))
		return a
	}); e != nil {
		kids = append(kids, e)
	}
	if e := sub("home", u.Home.Lat == 0 && u.Home.Lon == 0 && u.Home.Zoom == 0, func() []Attr {
		var a []Attr
		b.opt(&a, "lat", u.Home.Lat == 0, b.Float(u.Home.Lat))
		b.opt(&a, "lon", u.Home.Lon == 0, b.Float(u.Home.Lon))
		b.opt(&a, "zoom", u.Home.Zoom == 0, itoa(int64(u.Home.Zoom)))
		return a
	}); e != nil {
		kids = append(kids, e)
	}
	if len(u.Languages) > 0 || b.R.Bool() {
		l := &Elem{Name: "languages"}
		for _, s := range u.Languages {
			l.Kids = append(l.Kids, &Elem{Name: "lang", IsText: true, Text: s})
		}
		kids = append(kids, l)
	}
	br := u.Blocks.Received
	if br.Count != 0 || br.Active != 0 || (b.N.ExplicitZero && b.R.Bool()) {
		var a []Attr
		b.opt(&a, "count", br.Count == 0, itoa(int64(br.Count)))
		b.opt(&a, "active", br.Active == 0, itoa(int64(br.Active)))
		kids = append(kids, &Elem{Name: "blocks", Kids: []*Elem{{Name: "received", Attrs: a}}})
	}
	mr, ms := u.Messages.Received, u.Messages.Sent
	if mr.Count != 0 || mr.Unread != 0 || ms.Count != 0 || (b.N.ExplicitZero && b.R.Bool()) {
		m := &Elem{Name: "messages"}
		if mr.Count != 0 || mr.Unread != 0 || b.R.Bool() {
			var a []Attr
			b.opt(&a, "count", mr.Count == 0, itoa(int64(mr.Count)))
			b.opt(&a, "unread", mr.Unread == 0, itoa(int64(mr.Unread)))
			m.Kids = append(m.Kids, &Elem{Name: "received", Attrs: a})
		}
		if ms.Count != 0 || b.R.Bool() {
			var a []Attr
			b.opt(&a, "count", ms.Count == 0, itoa(int64(ms.Count)))
			m.Kids = append(m.Kids, &Elem{Name: "sent", Attrs: a})
		}
		m.Kids = b.shuffleKids(m.Kids)
		kids = append(kids, m)
	}
	return &Elem{Name: "user", Attrs: as, Kids: b.shuffleKids(kids)}
}

// Object builds the element of any of the seven object kinds.
func (b *Builder) Object(o osm.Object) *Elem {
	switch v := o.(type) {
	case *osm.Bounds:
		return b.Bounds(v)
	case *osm.Node:
		return b.Node(v)
	case *osm.Way:
		return b.Way(v)
	case *osm.Relation:
		return b.Relation(v)
	case *osm.Changeset:
		return b.Changeset(v)
	case *osm.Note:
		return b.Note(v)
	case *osm.User:
		return b.User(v)
	}
	panic("xmlw: unknown object kind")
}
