// Package xmlw is the harness' own OSM-XML producer. It serialises a *model* of a document
// (osm values used as plain data carriers plus an explicit document order) into XML text with
// layout noise. Nothing in here uses a marshaller of the library under test, and element /
// attribute names are written out by hand from the OSM XML format, not taken from the
// library's struct tags.
//
// render.go: generic element tree and the noisy renderer.
package xmlw

import (
	"fmt"
	"sort"
	"strings"

	"verif/internal/gen"
)

// Attr is one attribute; Value is the logical (unescaped) value.
type Attr struct {
	Name  string
	Value string
}

// Elem is one element of the document tree.
type Elem struct {
	Name  string
	Attrs []Attr
	Kids  []*Elem
	// IsText marks a leaf element whose content is character data (Text, may be "").
	IsText bool
	Text   string
	// Container marks an element whose unknown children both decoders *traverse* (document
	// root, action blocks, diff actions, old/new): unknown children injected there carry no
	// OSM-named descendants. Everywhere else an unknown child may contain anything.
	Container bool
	// Exact suppresses injected children, comments and layout inside the element (used for
	// unknown elements that were generated whole).
	Exact bool
}

// Noise selects the layout-noise classes the renderer (and the osm builder) may use.
type Noise struct {
	AttrOrder    bool // attributes in random order
	Space        bool // random white space in tags and between elements, both quote kinds
	Comments     bool // <!-- --> between elements and inside text content
	PIs          bool // processing instructions between elements
	Paired       bool // <x></x> / <x> </x> instead of <x/> for empty elements
	UnknownAttrs bool // attributes outside the vocabulary
	UnknownKids  bool // child elements outside the vocabulary
	CharRefs     bool // numeric character references / optional entities for arbitrary characters
	CDATA        bool // CDATA sections in text content
	Prolog       bool // XML declaration variants / none
	KidOrder     bool // (builder) child elements of different names interleaved
	ExplicitZero bool // (builder) optional attributes with a zero value written out instead of omitted
	// Namespaces: XML namespace declarations. One of: a default namespace on the root (every
	// element is in it), every element name prefixed, some element names prefixed; plus
	// attributes from other namespaces that a reader of OSM XML has to ignore
	// (xsi:schemaLocation with xmlns:xsi, xml:lang, xml:space, xml:base). OSM attributes
	// themselves are never put into a namespace and no foreign attribute has an OSM local name
	// (Go's encoding/xml matches attributes by local name alone).
	Namespaces bool
}

// NoiseNames lists the classes in a fixed order.
var NoiseNames = []string{"attrorder", "space", "comments", "pis", "paired", "unkattrs", "unkkids", "charrefs", "cdata", "prolog", "kidorder", "explicitzero", "namespaces"}

// Set switches a class by name.
func (n *Noise) Set(name string, v bool) {
	switch name {
	case "attrorder":
		n.AttrOrder = v
	case "space":
		n.Space = v
	case "comments":
		n.Comments = v
	case "pis":
		n.PIs = v
	case "paired":
		n.Paired = v
	case "unkattrs":
		n.UnknownAttrs = v
	case "unkkids":
		n.UnknownKids = v
	case "charrefs":
		n.CharRefs = v
	case "cdata":
		n.CDATA = v
	case "prolog":
		n.Prolog = v
	case "kidorder":
		n.KidOrder = v
	case "explicitzero":
		n.ExplicitZero = v
	case "namespaces":
		n.Namespaces = v
	}
}

// RandomNoise switches every class on with probability p.
func RandomNoise(r *gen.R, p float64) Noise {
	var n Noise
	for _, name := range NoiseNames {
		n.Set(name, r.Chance(p))
	}
	return n
}

// AllNoise has every class on.
func AllNoise() Noise {
	var n Noise
	for _, name := range NoiseNames {
		n.Set(name, true)
	}
	return n
}

// Renderer turns an element tree into text.
type Renderer struct {
	R *gen.R
	N Noise
	// Used records the noise classes that actually left a trace in the output.
	Used map[string]int
	// RawCDEnd writes "]]>" literally inside attribute values (probe only).
	RawCDEnd bool
	sb       strings.Builder
	root     *Elem
	nsMode   int // 0 none, 1 default namespace, 2 all names prefixed, 3 some names prefixed, 4 foreign attributes only
	nsPrefix string
}

// NewRenderer returns a renderer.
func NewRenderer(r *gen.R, n Noise) *Renderer {
	return &Renderer{R: r, N: n, Used: map[string]int{}}
}

// UsedList returns the sorted names of the noise classes that were used.
func (w *Renderer) UsedList() []string {
	var out []string
	for k := range w.Used {
		out = append(out, k)
	}
	sort.Strings(out)
	return out
}

func (w *Renderer) use(name string) { w.Used[name]++ }

// Doc renders a whole document.
func (w *Renderer) Doc(root *Elem) string {
	w.sb.Reset()
	w.root = root
	w.nsMode = 0
	if w.N.Namespaces {
		w.nsMode = 1 + w.R.Intn(4)
		w.nsPrefix = w.R.PickS("o", "osm", "ns0", "OSM")
		w.use("namespaces")
		w.use([]string{"", "ns-default", "ns-prefix-all", "ns-prefix-some", "ns-foreign-attrs-only"}[w.nsMode])
	}
	if w.N.Prolog {
		w.use("prolog")
		switch w.R.Intn(6) {
		case 0: // no declaration at all
		case 1:
			w.sb.WriteString("<?xml version='1.0' encoding='UTF-8'?>")
		case 2:
			w.sb.WriteString(`<?xml version="1.0"?>`)
		case 3:
			w.sb.WriteString(`<?xml version="1.0" encoding="utf-8" standalone="yes"?>`)
		case 4:
			w.sb.WriteString("<?xml  version = \"1.0\"\n encoding=\"UTF-8\" ?>")
		default:
			w.sb.WriteString(`<?xml version="1.0" encoding="UTF-8"?>` + "\n")
		}
	} else {
		w.sb.WriteString(`<?xml version="1.0" encoding="UTF-8"?>` + "\n")
	}
	w.misc()
	w.elem(root, 0)
	w.misc()
	if !w.N.Space {
		w.sb.WriteString("\n")
	}
	return w.sb.String()
}

// misc writes comments / PIs / white space allowed outside the root element.
func (w *Renderer) misc() {
	for i := 0; i < 2; i++ {
		if w.N.Space && w.R.Chance(0.5) {
			w.sb.WriteString(w.ws(true))
		}
		if w.N.Comments && w.R.Chance(0.25) {
			w.comment()
		}
		if w.N.PIs && w.R.Chance(0.2) {
			w.pi()
		}
	}
}

var wsForms = []string{" ", "\n", "\t", "  ", "\n    ", "\r\n", " \t ", "\n\n"}

// ws returns white space; mayBeEmpty allows "".
func (w *Renderer) ws(mayBeEmpty bool) string {
	if !w.N.Space {
		return " "
	}
	w.use("space")
	if mayBeEmpty && w.R.Chance(0.3) {
		return ""
	}
	return wsForms[w.R.Intn(len(wsForms))]
}

var commentTexts = []string{"", " ", " generated ", "<node id=\"1\" lat=\"2\" lon=\"3\"/>", " & &amp; &#60; ]]> <![CDATA[ ", "<tag k='a' v='b'/>",
	"</way>", " ünï©ødé 日本 ", "<?pi?>", "-", "a - b", "\n multi\n line \n", "<bounds minlat='1'/>"}

func (w *Renderer) comment() {
	w.use("comments")
	t := commentTexts[w.R.Intn(len(commentTexts))]
	if w.R.Chance(0.3) {
		t += w.R.Str(8)
	}
	t = strings.ReplaceAll(t, "--", "- -")
	if strings.HasSuffix(t, "-") {
		t += " "
	}
	w.sb.WriteString("<!--" + t + "-->")
}

var piTargets = []string{"pi", "osm-hint", "xml-stylesheet", "php", "x", "josm"}
var piData = []string{"", "a", "href=\"style.css\" type=\"text/css\"", "<node id=\"1\"/>", " echo 1; ", "k='v' & < > ]]>", "?", "? >"}

func (w *Renderer) pi() {
	w.use("pis")
	t := piTargets[w.R.Intn(len(piTargets))]
	d := piData[w.R.Intn(len(piData))]
	d = strings.ReplaceAll(d, "?>", "? >")
	if d == "" {
		w.sb.WriteString("<?" + t + "?>")
	} else {
		w.sb.WriteString("<?" + t + " " + d + "?>")
	}
}

// Names never used by the OSM XML vocabulary (and not equal to an object name under any
// letter case). They serve as unknown attribute and unknown element names.
var unkAttrNames = []string{"origin", "x-extra", "foo", "_hidden", "data-id", "osm_base", "note2", "srs", "zz", "areas", "agreed", "pd", "redacted"}
var unkElemNames = []string{"meta", "remark", "extra", "foo", "x-data", "contributor-terms", "roles", "area", "count", "center", "stats", "api"}
var osmLikeElemNames = []string{"tag", "nd", "member", "node", "way", "relation", "bounds", "comment", "text", "id", "user", "update", "discussion", "changeset", "note"}
var osmLikeAttrNames = []string{"id", "k", "v", "ref", "lat", "lon", "version", "type", "role", "uid", "user", "visible", "timestamp", "changeset"}

func (w *Renderer) unknownAttrs(have []Attr) []Attr {
	if !w.N.UnknownAttrs || !w.R.Chance(0.35) {
		return nil
	}
	used := map[string]bool{}
	for _, a := range have {
		used[a.Name] = true
	}
	var out []Attr
	n := w.R.Range(1, 2)
	for i := 0; i < n; i++ {
		name := unkAttrNames[w.R.Intn(len(unkAttrNames))]
		if w.R.Chance(0.12) {
			name = "ext:" + name // prefix declared on the root element
		}
		if used[name] {
			continue
		}
		used[name] = true
		out = append(out, Attr{name, w.R.StrWS(6)})
		w.use("unkattrs")
	}
	return out
}

// unknownElem builds an element outside the vocabulary. Inside objects (container=false) it
// may carry OSM-named attributes, children and text; at container level it carries only
// names outside the vocabulary.
func (w *Renderer) unknownElem(container bool, depth int) *Elem {
	e := &Elem{Name: unkElemNames[w.R.Intn(len(unkElemNames))], Exact: true}
	na := w.R.Intn(3)
	used := map[string]bool{}
	for i := 0; i < na; i++ {
		name := unkAttrNames[w.R.Intn(len(unkAttrNames))]
		if !container && w.R.Bool() {
			name = osmLikeAttrNames[w.R.Intn(len(osmLikeAttrNames))]
		}
		if used[name] {
			continue
		}
		used[name] = true
		e.Attrs = append(e.Attrs, Attr{name, w.R.Str(5)})
	}
	if depth < 2 && w.R.Chance(0.5) {
		nk := w.R.Range(1, 2)
		for i := 0; i < nk; i++ {
			k := w.unknownElem(container, depth+1)
			if !container && w.R.Chance(0.6) {
				k.Name = osmLikeElemNames[w.R.Intn(len(osmLikeElemNames))]
			}
			e.Kids = append(e.Kids, k)
		}
	} else if w.R.Chance(0.4) {
		e.IsText = true
		e.Text = w.R.Str(8)
	}
	return e
}

// filler writes what may stand between two children of a non-text element.
func (w *Renderer) filler(parent *Elem, depth int) {
	if parent.Exact {
		return
	}
	if w.N.Space {
		w.sb.WriteString(w.ws(true))
	} else {
		w.sb.WriteString("\n" + strings.Repeat("  ", depth))
	}
	if w.N.Comments && w.R.Chance(0.12) {
		w.comment()
		if w.N.Space {
			w.sb.WriteString(w.ws(true))
		}
	}
	if w.N.PIs && w.R.Chance(0.08) {
		w.pi()
	}
	if w.N.UnknownKids && w.R.Chance(0.12) {
		w.use("unkkids")
		if !parent.Container {
			w.use("unkkids-in-object")
		}
		w.elem(w.unknownElem(parent.Container, 0), depth)
		if w.N.Space {
			w.sb.WriteString(w.ws(true))
		}
	}
}

const osmNS = "http://openstreetmap.org/osm/0.6"

func (w *Renderer) elem(e *Elem, depth int) {
	sb := &w.sb
	qname := e.Name
	if w.nsMode == 2 || (w.nsMode == 3 && w.R.Bool()) {
		qname = w.nsPrefix + ":" + e.Name
	}
	sb.WriteString("<" + qname)
	attrs := append([]Attr(nil), e.Attrs...)
	if w.nsMode != 0 {
		if e == w.root {
			switch w.nsMode {
			case 1:
				attrs = append(attrs, Attr{"xmlns", osmNS})
			case 2, 3:
				attrs = append(attrs, Attr{"xmlns:" + w.nsPrefix, osmNS})
			}
			if w.nsMode == 4 || w.R.Bool() {
				w.use("ns-foreign-attrs")
				attrs = append(attrs, Attr{"xmlns:xsi", "http://www.w3.org/2001/XMLSchema-instance"},
					Attr{w.R.PickS("xsi:schemaLocation", "xsi:noNamespaceSchemaLocation"), osmNS + " osm.xsd"})
			}
		}
		if (w.nsMode == 4 || w.R.Chance(0.3)) && w.R.Chance(0.25) {
			w.use("ns-foreign-attrs")
			switch w.R.Intn(3) {
			case 0:
				attrs = append(attrs, Attr{"xml:lang", w.R.PickS("en", "de-DE", "")})
			case 1:
				attrs = append(attrs, Attr{"xml:space", w.R.PickS("preserve", "default")})
			default:
				attrs = append(attrs, Attr{"xml:base", "http://example.org/" + w.R.Word()})
			}
		}
	}
	if !e.Exact {
		attrs = append(attrs, w.unknownAttrs(attrs)...)
	}
	if e == w.root && w.N.UnknownAttrs {
		// the prefix some unknown attributes use is declared on the root element
		attrs = append(attrs, Attr{"xmlns:ext", "http://example.org/ext"})
	}
	if w.N.AttrOrder && len(attrs) > 1 {
		w.use("attrorder")
		w.R.Shuffle(len(attrs), func(i, j int) { attrs[i], attrs[j] = attrs[j], attrs[i] })
	}
	for _, a := range attrs {
		sep := " "
		if w.N.Space {
			sep = w.ws(false)
		}
		sb.WriteString(sep + a.Name)
		if w.N.Space && w.R.Chance(0.15) {
			sb.WriteString(w.ws(true) + "=" + w.ws(true))
		} else {
			sb.WriteString("=")
		}
		q := byte('"')
		if w.N.Space && w.R.Chance(0.4) {
			q = '\''
		}
		sb.WriteByte(q)
		w.attrValue(a.Value, q)
		sb.WriteByte(q)
	}
	if w.N.Space && w.R.Chance(0.3) {
		sb.WriteString(w.ws(true))
	}
	if e.IsText {
		if e.Text == "" && !(w.N.Paired && w.R.Bool()) {
			sb.WriteString("/>")
			return
		}
		if e.Text == "" {
			w.use("paired")
		}
		sb.WriteString(">")
		w.textContent(e.Text, e.Exact)
		w.endTag(qname)
		return
	}
	if len(e.Kids) == 0 {
		// empty element: self-closing, paired, or paired with ignorable content
		if !w.N.Paired || w.R.Chance(0.4) {
			sb.WriteString("/>")
			return
		}
		w.use("paired")
		sb.WriteString(">")
		if w.R.Chance(0.5) && !e.Exact {
			w.filler(e, depth+1)
		}
		w.endTag(qname)
		return
	}
	sb.WriteString(">")
	for _, k := range e.Kids {
		w.filler(e, depth+1)
		w.elem(k, depth+1)
	}
	w.filler(e, depth)
	w.endTag(qname)
}

func (w *Renderer) endTag(qname string) {
	w.sb.WriteString("</" + qname)
	if w.N.Space && w.R.Chance(0.2) {
		w.sb.WriteString(w.ws(true))
	}
	w.sb.WriteString(">")
}

func (w *Renderer) charRef(c rune) string {
	switch w.R.Intn(5) {
	case 0:
		return fmt.Sprintf("&#%d;", c)
	case 1:
		return fmt.Sprintf("&#x%x;", c)
	case 2:
		return fmt.Sprintf("&#x%X;", c)
	case 3:
		return fmt.Sprintf("&#%04d;", c)
	default:
		return fmt.Sprintf("&#x%05X;", c)
	}
}

// ctrlRef is the reference form always used for tab, newline and carriage return where a
// literal would be subject to normalisation.
func (w *Renderer) ctrlRef(c rune) string {
	if w.N.CharRefs {
		return w.charRef(c)
	}
	return fmt.Sprintf("&#%d;", c)
}

func (w *Renderer) named(c rune, name string) string {
	if w.N.CharRefs && w.R.Chance(0.4) {
		w.use("charrefs")
		return w.charRef(c)
	}
	return "&" + name + ";"
}

// attrValue writes an attribute value. Tab, newline and carriage return are always written
// as character references, so the result never depends on attribute-value normalisation.
func (w *Renderer) attrValue(v string, quote byte) {
	prev := rune(0)
	for _, c := range v {
		afterBracket := prev == ']'
		prev = c
		switch {
		case c == '\t' || c == '\n' || c == '\r':
			w.sb.WriteString(w.ctrlRef(c))
		case c == '<':
			w.sb.WriteString(w.named(c, "lt"))
		case c == '&':
			w.sb.WriteString(w.named(c, "amp"))
		case c == '"' && (quote == '"' || (w.N.CharRefs && w.R.Bool())):
			w.sb.WriteString(w.named(c, "quot"))
		case c == '\'' && (quote == '\'' || (w.N.CharRefs && w.R.Bool())):
			w.sb.WriteString(w.named(c, "apos"))
		case c == '>' && afterBracket:
			// "]]>" is legal in an attribute value, but Go's encoding/xml rejects it there
			// (observed; see notes/C03.md). A literal '>' is therefore never written after
			// ']' unless RawCDEnd asks for exactly that probe.
			if w.RawCDEnd {
				w.sb.WriteRune(c)
			} else {
				w.sb.WriteString(w.named(c, "gt"))
			}
		case c == '>' && (!w.N.CharRefs || w.R.Bool()):
			w.sb.WriteString(w.named(c, "gt"))
		case w.N.CharRefs && w.R.Chance(0.08):
			w.use("charrefs")
			w.sb.WriteString(w.charRef(c))
		default:
			w.sb.WriteRune(c)
		}
	}
}

// textContent writes character data: escaped text and (with the CDATA class) CDATA sections,
// optionally interrupted by comments. Carriage return is always a character reference.
func (w *Renderer) textContent(v string, exact bool) {
	rs := []rune(v)
	i := 0
	for i < len(rs) {
		// choose a piece
		n := len(rs) - i
		if (w.N.CDATA || w.N.Comments) && n > 1 {
			n = w.R.Range(1, n)
		}
		piece := string(rs[i : i+n])
		i += n
		if w.N.CDATA && w.R.Chance(0.45) && !strings.Contains(piece, "]]>") && !strings.ContainsRune(piece, '\r') &&
			!strings.HasSuffix(piece, "]") {
			w.use("cdata")
			w.sb.WriteString("<![CDATA[" + piece + "]]>")
		} else {
			w.escText(piece)
		}
		if w.N.Comments && !exact && i < len(rs) && w.R.Chance(0.2) {
			w.use("comment-in-text")
			w.comment()
		}
	}
	if w.N.CDATA && len(rs) == 0 && w.R.Chance(0.3) {
		w.use("cdata")
		w.sb.WriteString("<![CDATA[]]>")
	}
}

func (w *Renderer) escText(v string) {
	for _, c := range v {
		switch {
		case c == '\r':
			w.sb.WriteString(w.ctrlRef(c))
		case (c == '\t' || c == '\n') && w.N.CharRefs && w.R.Bool():
			w.use("charrefs")
			w.sb.WriteString(w.charRef(c))
		case c == '<':
			w.sb.WriteString(w.named(c, "lt"))
		case c == '&':
			w.sb.WriteString(w.named(c, "amp"))
		case c == '>':
			// always escaped: a literal '>' could complete "]]>" (also across a piece border)
			w.sb.WriteString(w.named(c, "gt"))
		case (c == '"' || c == '\'') && w.N.CharRefs && w.R.Chance(0.3):
			if c == '"' {
				w.sb.WriteString(w.named(c, "quot"))
			} else {
				w.sb.WriteString(w.named(c, "apos"))
			}
		case w.N.CharRefs && w.R.Chance(0.08):
			w.use("charrefs")
			w.sb.WriteString(w.charRef(c))
		default:
			w.sb.WriteRune(c)
		}
	}
}
