package xmlw

// gen.go: seeded generators of osm values and document models. Every optional part is a named
// *feature* ("way.nodes.lat", "changeset.discussion", ...). In random mode a feature is
// populated with probability P; in systematic mode exactly one feature (and the parts it
// stands in) is populated (Only) or everything but one (AllBut).

import (
	"math"
	"strings"
	"time"

	"github.com/paulmach/orb"
	"github.com/paulmach/osm"

	"verif/internal/gen"
)

// G generates osm values.
type G struct {
	R      *gen.R
	P      float64
	Only   string
	AllBut string
	// Simple produces short readable values (systematic cases).
	Simple bool
	// Nanos gives element / changeset / update times a nanosecond fraction.
	Nanos bool
	// WildFloats lets coordinates be arbitrary finite float64 values now and then.
	WildFloats bool
	MaxList    int

	names    []string
	seen     map[string]bool
	uidPool  []int64
	timePool []time.Time
	secPool  []time.Time
	poolSet  bool
}

// NewG returns a random-mode generator.
func NewG(r *gen.R, p float64) *G { return &G{R: r, P: p, MaxList: 4} }

// Has decides whether the named feature is populated and records the name.
func (g *G) Has(name string) bool {
	if g.seen == nil {
		g.seen = map[string]bool{}
	}
	if !g.seen[name] {
		g.seen[name] = true
		g.names = append(g.names, name)
	}
	switch {
	case g.Only != "":
		return g.Only == name || strings.HasPrefix(g.Only, name+".")
	case g.AllBut != "":
		return !(g.AllBut == name || strings.HasPrefix(name, g.AllBut+"."))
	}
	return g.R.Chance(g.P)
}

// Kinds lists what Value can generate.
var Kinds = []string{"bounds", "node", "way", "relation", "changeset", "note", "user", "osm", "change", "diff"}

// ObjectKinds are the seven object kinds.
var ObjectKinds = []string{"bounds", "node", "way", "relation", "changeset", "note", "user"}

// Features enumerates the feature names of a kind (in first-use order).
func Features(kind string) []string {
	g := &G{R: gen.New(1, "xmlw.features"), P: 1, Simple: true, MaxList: 1}
	g.Value(kind)
	var out []string
	for _, n := range g.names {
		if strings.HasPrefix(n, kind+".") {
			out = append(out, n)
		}
	}
	return out
}

var boundaryRunes = []rune{0x20, 0x7f, 0x80, 0x85, 0xa0, 0x2028, 0xd7ff, 0xe000, 0xfeff, 0xfffd, 0x10000, 0x10ffff, '\t', '\n', '\r'}

// Str returns a non-empty string of characters XML 1.0 can carry.
func (g *G) Str() string {
	if g.Simple {
		return g.R.Word()
	}
	switch g.R.Intn(10) {
	case 0:
		return g.R.Word()
	case 1: // white space at the ends and in runs
		return g.R.PickS(" ", "  a", "a  ", " a  b ", "\t", "\n", "\r", "\r\n", "a\r\nb", " \n ")
	case 2: // XML-special sequences
		return g.R.PickS("]]>", "a]]>b", "]]", "&amp;", "&#65;", "<![CDATA[x]]>", "<!-- c -->", "<?pi?>", "<a>", "</a>", "\"'", "'", "\"", "&", "<", ">")
	case 3:
		rs := []rune(g.R.StrWS(8))
		for i := 0; i < 2; i++ {
			rs = append(rs, boundaryRunes[g.R.Intn(len(boundaryRunes))])
		}
		g.R.Shuffle(len(rs), func(i, j int) { rs[i], rs[j] = rs[j], rs[i] })
		return string(rs)
	}
	for {
		if s := g.R.StrWS(14); s != "" {
			return s
		}
	}
}

// ID returns an object id (mostly positive; sometimes large, negative or zero).
func (g *G) ID() int64 {
	if g.Simple {
		return int64(g.R.Range(1, 999))
	}
	switch g.R.Intn(12) {
	case 0:
		return -g.R.Int64Range(1, 1<<40)
	case 1:
		return g.R.Int64Range(1<<40, 1<<62)
	case 2:
		return g.R.Int64Range(1<<31-2, 1<<32+2)
	case 3:
		if g.R.Chance(0.3) {
			return 0
		}
	}
	return g.R.Int64Range(1, 12_000_000_000)
}

// UID returns a user id. Containers and documents are generated with a small pool of user
// ids (initPool), so that several objects of one stream carry the same non-zero uid while their
// user names are drawn independently: users can rename themselves, uid -> display name is not a
// function in history files, diffs or any osm.OSM value.
func (g *G) UID() osm.UserID {
	if len(g.uidPool) > 0 && g.R.Chance(0.75) {
		return osm.UserID(g.uidPool[g.R.Intn(len(g.uidPool))])
	}
	return osm.UserID(g.ID())
}

// initPool decides once per generator whether user ids come from a small pool.
func (g *G) initPool() {
	if g.Simple || g.poolSet {
		return
	}
	g.poolSet = true
	// optional times (timestamp, committed, update timestamps, created_at/closed_at, discussion
	// and note dates) come from a small pool half of the time, so that coincidences between
	// fields of one object and between objects are frequent: committed == timestamp, an
	// update stamped like its parent, closed_at == created_at, date_closed == date_created
	if g.R.Chance(0.6) {
		for i, n := 0, g.R.Range(1, 3); i < n; i++ {
			t := g.R.Time()
			g.secPool = append(g.secPool, t)
			if g.Nanos && g.R.Bool() {
				t = t.Add(time.Duration(g.R.Range(1, 999_999_999)))
			}
			g.timePool = append(g.timePool, t)
		}
	}
	if g.R.Chance(0.6) {
		for i, n := 0, g.R.Range(1, 3); i < n; i++ {
			g.uidPool = append(g.uidPool, g.R.Int64Range(1, 9_999_999))
		}
	}
}

// Int returns a non-zero int (versions, counts).
func (g *G) Int() int {
	if g.Simple {
		return g.R.Range(1, 9)
	}
	switch g.R.Intn(10) {
	case 0:
		return g.R.Range(1<<16, 1<<31-1)
	case 1:
		return -g.R.Range(1, 1000)
	}
	return g.R.Range(1, 3000)
}

// Coord returns a non-zero coordinate.
func (g *G) Coord(lim int) float64 {
	var v float64
	switch {
	case g.Simple:
		v = float64(g.R.Range(-lim*10, lim*10)) / 10
	case g.WildFloats && g.R.Chance(0.15):
		for {
			v = math.Float64frombits(g.R.Uint64())
			if !math.IsNaN(v) && !math.IsInf(v, 0) {
				break
			}
		}
	case g.R.Chance(0.2):
		// an arbitrary double of the range: its shortest decimal text has 15-17 significant
		// digits (what a writer that prints float64 coordinates produces)
		v = (g.R.Float64()*2 - 1) * float64(lim)
	case g.R.Chance(0.1):
		v = float64(g.R.Int64Range(int64(-lim)*1_000_000_000, int64(lim)*1_000_000_000)) / 1e9
	case g.R.Chance(0.05):
		v = float64(g.R.Pick(-lim, lim, 1, -1))
	default:
		v = g.R.Coord(lim)
	}
	if v == 0 { // also excludes -0
		v = 0.5
	}
	return v
}

// Time returns a non-zero UTC instant.
func (g *G) Time() time.Time {
	if g.Simple {
		return time.Date(2012+g.R.Intn(8), time.Month(1+g.R.Intn(12)), 1+g.R.Intn(28), g.R.Intn(24), g.R.Intn(60), g.R.Intn(60), 0, time.UTC)
	}
	if len(g.timePool) > 0 && g.R.Bool() {
		return g.timePool[g.R.Intn(len(g.timePool))]
	}
	if g.Nanos && g.R.Chance(0.6) {
		switch g.R.Intn(3) {
		case 0:
			return g.R.TimeNanos()
		case 1:
			return g.R.Time().Add(time.Duration(g.R.Range(1, 999)) * time.Millisecond)
		default:
			return g.R.Time().Add(time.Duration(g.R.Pick(1, 999_999_999, 100_000_000, 10)) * time.Nanosecond)
		}
	}
	return g.R.Time()
}

// SecTime returns a whole-second instant (note dates).
func (g *G) SecTime() time.Time {
	if g.Simple {
		return g.Time()
	}
	if len(g.secPool) > 0 && g.R.Bool() {
		return g.secPool[g.R.Intn(len(g.secPool))]
	}
	return g.R.Time()
}

func (g *G) listLen() int {
	if g.Simple {
		return 1
	}
	m := g.MaxList
	if m < 1 {
		m = 1
	}
	if g.R.Chance(0.05) {
		return g.R.Range(1, 4*m)
	}
	return g.R.Range(1, m)
}

// Tags returns 1..n tags (keys may repeat: the format does not forbid it).
func (g *G) Tags() osm.Tags {
	n := g.listLen()
	ts := make(osm.Tags, 0, n)
	for i := 0; i < n; i++ {
		t := osm.Tag{Key: g.Str()}
		if g.Simple || g.R.Chance(0.9) {
			t.Value = g.Str()
		}
		ts = append(ts, t)
	}
	return ts
}

// Bounds generates a bounds object.
func (g *G) Bounds() *osm.Bounds {
	b := &osm.Bounds{}
	if g.Has("bounds.minlat") {
		b.MinLat = g.Coord(90)
	}
	if g.Has("bounds.maxlat") {
		b.MaxLat = g.Coord(90)
	}
	if g.Has("bounds.minlon") {
		b.MinLon = g.Coord(180)
	}
	if g.Has("bounds.maxlon") {
		b.MaxLon = g.Coord(180)
	}
	return b
}

// plainBounds is a bounds value used as a part of other values.
func (g *G) plainBounds() *osm.Bounds {
	if !g.Simple && g.R.Chance(0.1) {
		return &osm.Bounds{}
	}
	return &osm.Bounds{MinLat: g.Coord(90), MaxLat: g.Coord(90), MinLon: g.Coord(180), MaxLon: g.Coord(180)}
}

func (g *G) committed(name string) *time.Time {
	if !g.Has(name) {
		return nil
	}
	t := g.Time()
	return &t
}

// Node generates a node.
func (g *G) Node() *osm.Node {
	n := &osm.Node{ID: osm.NodeID(g.ID())}
	if g.Has("node.lat") {
		n.Lat = g.Coord(90)
	}
	if g.Has("node.lon") {
		n.Lon = g.Coord(180)
	}
	if g.Has("node.user") {
		n.User = g.Str()
	}
	if g.Has("node.uid") {
		n.UserID = g.UID()
	}
	n.Visible = g.Has("node.visible")
	if g.Has("node.version") {
		n.Version = g.Int()
	}
	if g.Has("node.changeset") {
		n.ChangesetID = osm.ChangesetID(g.ID())
	}
	if g.Has("node.timestamp") {
		n.Timestamp = g.Time()
	}
	if g.Has("node.tags") {
		n.Tags = g.Tags()
	}
	n.Committed = g.committed("node.committed")
	return n
}

func (g *G) wayNodes(prefix string) osm.WayNodes {
	n := g.listLen()
	if !g.Simple {
		n = g.R.Range(1, 3*g.MaxList)
	}
	out := make(osm.WayNodes, 0, n)
	for i := 0; i < n; i++ {
		wn := osm.WayNode{ID: osm.NodeID(g.ID())}
		if g.Has(prefix + ".version") {
			wn.Version = g.Int()
		}
		if g.Has(prefix + ".changeset") {
			wn.ChangesetID = osm.ChangesetID(g.ID())
		}
		if g.Has(prefix + ".lat") {
			wn.Lat = g.Coord(90)
		}
		if g.Has(prefix + ".lon") {
			wn.Lon = g.Coord(180)
		}
		out = append(out, wn)
	}
	return out
}

func (g *G) updates(prefix string) osm.Updates {
	n := g.listLen()
	out := make(osm.Updates, 0, n)
	for i := 0; i < n; i++ {
		u := osm.Update{Index: g.R.Intn(20)}
		if g.Has(prefix + ".version") {
			u.Version = g.Int()
		}
		if g.Has(prefix + ".timestamp") {
			u.Timestamp = g.Time()
		}
		if g.Has(prefix + ".changeset") {
			u.ChangesetID = osm.ChangesetID(g.ID())
		}
		if g.Has(prefix + ".lat") {
			u.Lat = g.Coord(90)
		}
		if g.Has(prefix + ".lon") {
			u.Lon = g.Coord(180)
		}
		u.Reverse = g.Has(prefix + ".reverse")
		out = append(out, u)
	}
	return out
}

// Way generates a way.
func (g *G) Way() *osm.Way {
	w := &osm.Way{ID: osm.WayID(g.ID())}
	if g.Has("way.user") {
		w.User = g.Str()
	}
	if g.Has("way.uid") {
		w.UserID = g.UID()
	}
	w.Visible = g.Has("way.visible")
	if g.Has("way.version") {
		w.Version = g.Int()
	}
	if g.Has("way.changeset") {
		w.ChangesetID = osm.ChangesetID(g.ID())
	}
	if g.Has("way.timestamp") {
		w.Timestamp = g.Time()
	}
	if g.Has("way.nodes") {
		w.Nodes = g.wayNodes("way.nodes")
	}
	if g.Has("way.tags") {
		w.Tags = g.Tags()
	}
	w.Committed = g.committed("way.committed")
	if g.Has("way.updates") {
		w.Updates = g.updates("way.updates")
	}
	if g.Has("way.bounds") {
		w.Bounds = g.plainBounds()
	}
	return w
}

var memberTypes = []osm.Type{osm.TypeNode, osm.TypeWay, osm.TypeRelation}

// Relation generates a relation.
func (g *G) Relation() *osm.Relation {
	r := &osm.Relation{ID: osm.RelationID(g.ID())}
	if g.Has("relation.user") {
		r.User = g.Str()
	}
	if g.Has("relation.uid") {
		r.UserID = g.UID()
	}
	r.Visible = g.Has("relation.visible")
	if g.Has("relation.version") {
		r.Version = g.Int()
	}
	if g.Has("relation.changeset") {
		r.ChangesetID = osm.ChangesetID(g.ID())
	}
	if g.Has("relation.timestamp") {
		r.Timestamp = g.Time()
	}
	if g.Has("relation.tags") {
		r.Tags = g.Tags()
	}
	if g.Has("relation.members") {
		n := g.listLen()
		for i := 0; i < n; i++ {
			m := osm.Member{Type: memberTypes[g.R.Intn(3)], Ref: g.ID()}
			if g.Has("relation.members.role") {
				m.Role = g.Str()
			}
			if g.Has("relation.members.version") {
				m.Version = g.Int()
			}
			if g.Has("relation.members.changeset") {
				m.ChangesetID = osm.ChangesetID(g.ID())
			}
			if g.Has("relation.members.lat") {
				m.Lat = g.Coord(90)
			}
			if g.Has("relation.members.lon") {
				m.Lon = g.Coord(180)
			}
			if g.Has("relation.members.orientation") {
				m.Orientation = orb.Orientation(g.R.Pick(-1, 1))
			}
			if g.Has("relation.members.nodes") {
				m.Nodes = g.wayNodes("relation.members.nodes")
			}
			r.Members = append(r.Members, m)
		}
	}
	r.Committed = g.committed("relation.committed")
	if g.Has("relation.updates") {
		r.Updates = g.updates("relation.updates")
	}
	if g.Has("relation.bounds") {
		r.Bounds = g.plainBounds()
	}
	return r
}

// Changeset generates a changeset.
func (g *G) Changeset() *osm.Changeset {
	c := &osm.Changeset{ID: osm.ChangesetID(g.ID())}
	if g.Has("changeset.user") {
		c.User = g.Str()
	}
	if g.Has("changeset.uid") {
		c.UserID = g.UID()
	}
	if g.Has("changeset.created_at") {
		c.CreatedAt = g.Time()
	}
	if g.Has("changeset.closed_at") {
		c.ClosedAt = g.Time()
	}
	c.Open = g.Has("changeset.open")
	if g.Has("changeset.num_changes") {
		c.ChangesCount = g.Int()
	}
	if g.Has("changeset.min_lat") {
		c.MinLat = g.Coord(90)
	}
	if g.Has("changeset.max_lat") {
		c.MaxLat = g.Coord(90)
	}
	if g.Has("changeset.min_lon") {
		c.MinLon = g.Coord(180)
	}
	if g.Has("changeset.max_lon") {
		c.MaxLon = g.Coord(180)
	}
	if g.Has("changeset.comments_count") {
		c.CommentsCount = g.Int()
	}
	if g.Has("changeset.tags") {
		c.Tags = g.Tags()
	}
	if g.Has("changeset.discussion") {
		c.Discussion = &osm.ChangesetDiscussion{}
		n := g.listLen()
		for i := 0; i < n; i++ {
			cm := &osm.ChangesetComment{}
			if g.Has("changeset.discussion.user") {
				cm.User = g.Str()
			}
			if g.Has("changeset.discussion.uid") {
				cm.UserID = g.UID()
			}
			if g.Has("changeset.discussion.date") {
				cm.Timestamp = g.Time()
			}
			if g.Has("changeset.discussion.text") {
				cm.Text = g.Str()
			}
			c.Discussion.Comments = append(c.Discussion.Comments, cm)
		}
	} else if !g.Simple && g.Only == "" && g.AllBut == "" && g.R.Chance(0.1) {
		c.Discussion = &osm.ChangesetDiscussion{} // empty discussion ≡ none
	}
	return c
}

// Note generates a note.
func (g *G) Note() *osm.Note {
	n := &osm.Note{}
	if g.Has("note.id") {
		n.ID = osm.NoteID(g.ID())
		if n.ID == 0 {
			n.ID = 1
		}
	}
	if g.Has("note.lat") {
		n.Lat = g.Coord(90)
	}
	if g.Has("note.lon") {
		n.Lon = g.Coord(180)
	}
	if g.Has("note.url") {
		n.URL = g.Str()
	}
	if g.Has("note.comment_url") {
		n.CommentURL = g.Str()
	}
	if g.Has("note.close_url") {
		n.CloseURL = g.Str()
	}
	if g.Has("note.reopen_url") {
		n.ReopenURL = g.Str()
	}
	if g.Has("note.date_created") {
		n.DateCreated = osm.Date{Time: g.SecTime()}
	}
	if g.Has("note.date_closed") {
		n.DateClosed = osm.Date{Time: g.SecTime()}
	}
	if g.Has("note.status") {
		n.Status = osm.NoteStatus(g.R.PickS("open", "closed", "hidden"))
		if !g.Simple && g.R.Chance(0.2) {
			n.Status = osm.NoteStatus(g.Str())
		}
	}
	if g.Has("note.comments") {
		k := g.listLen()
		for i := 0; i < k; i++ {
			c := &osm.NoteComment{}
			if g.Has("note.comments.date") {
				c.Date = osm.Date{Time: g.SecTime()}
			}
			if g.Has("note.comments.uid") {
				c.UserID = g.UID()
				if c.UserID == 0 {
					c.UserID = 7
				}
			}
			if g.Has("note.comments.user") {
				c.User = g.Str()
			}
			if g.Has("note.comments.user_url") {
				c.UserURL = g.Str()
			}
			if g.Has("note.comments.action") {
				c.Action = osm.NoteCommentAction(g.R.PickS("opened", "commented", "closed", "reopened", "hidden"))
			}
			if g.Has("note.comments.text") {
				c.Text = g.Str()
			}
			if g.Has("note.comments.html") {
				c.HTML = "<p>" + g.Str() + "</p>"
			}
			n.Comments = append(n.Comments, c)
		}
	}
	return n
}

// User generates a user.
func (g *G) User() *osm.User {
	u := &osm.User{ID: osm.UserID(g.ID())}
	if g.Has("user.display_name") {
		u.Name = g.Str()
	}
	if g.Has("user.description") {
		u.Description = g.Str()
	}
	if g.Has("user.img") {
		u.Img.Href = g.Str()
	}
	if g.Has("user.changesets") {
		u.Changesets.Count = g.Int()
	}
	if g.Has("user.traces") {
		u.Traces.Count = g.Int()
	}
	if g.Has("user.home.lat") {
		u.Home.Lat = g.Coord(90)
	}
	if g.Has("user.home.lon") {
		u.Home.Lon = g.Coord(180)
	}
	if g.Has("user.home.zoom") {
		u.Home.Zoom = g.R.Range(1, 19)
	}
	if g.Has("user.languages") {
		k := g.listLen()
		for i := 0; i < k; i++ {
			if g.Simple || g.R.Chance(0.8) {
				u.Languages = append(u.Languages, g.R.PickS("en", "en-US", "de-DE", "fr", "pt-BR", "zh-Hant"))
			} else {
				u.Languages = append(u.Languages, g.Str())
			}
		}
	}
	if g.Has("user.blocks.count") {
		u.Blocks.Received.Count = g.Int()
	}
	if g.Has("user.blocks.active") {
		u.Blocks.Received.Active = g.Int()
	}
	if g.Has("user.messages.received.count") {
		u.Messages.Received.Count = g.Int()
	}
	if g.Has("user.messages.received.unread") {
		u.Messages.Received.Unread = g.Int()
	}
	if g.Has("user.messages.sent") {
		u.Messages.Sent.Count = g.Int()
	}
	if g.Has("user.account_created") {
		u.CreatedAt = g.Time()
	}
	return u
}

// Object generates one object of the named kind.
func (g *G) Object(kind string) osm.Object {
	switch kind {
	case "bounds":
		return g.Bounds()
	case "node":
		return g.Node()
	case "way":
		return g.Way()
	case "relation":
		return g.Relation()
	case "changeset":
		return g.Changeset()
	case "note":
		return g.Note()
	case "user":
		return g.User()
	}
	panic("xmlw: unknown object kind " + kind)
}

// Element generates a node, way or relation.
func (g *G) Element() osm.Object { return g.Object(ObjectKinds[1+g.R.Intn(3)]) }

func (g *G) header(prefix string) Header {
	var h Header
	if g.Has(prefix + ".version") {
		h.Version = "0.6"
		if !g.Simple && g.R.Chance(0.3) {
			h.Version = g.Str()
		}
	}
	if g.Has(prefix + ".generator") {
		h.Generator = g.Str()
	}
	if g.Has(prefix + ".copyright") {
		h.Copyright = g.Str()
	}
	if g.Has(prefix + ".attribution") {
		h.Attribution = g.Str()
	}
	if g.Has(prefix + ".license") {
		h.License = g.Str()
	}
	return h
}

// body fills the per-kind sequences of an OSM container.
func (g *G) body(prefix string, o *osm.OSM, others bool) {
	if g.Has(prefix + ".bounds") {
		o.Bounds = g.plainBounds()
	}
	if g.Has(prefix + ".nodes") {
		for i, n := 0, g.listLen(); i < n; i++ {
			o.Nodes = append(o.Nodes, g.Node())
		}
	}
	if g.Has(prefix + ".ways") {
		for i, n := 0, g.listLen(); i < n; i++ {
			o.Ways = append(o.Ways, g.Way())
		}
	}
	if g.Has(prefix + ".relations") {
		for i, n := 0, g.listLen(); i < n; i++ {
			o.Relations = append(o.Relations, g.Relation())
		}
	}
	if !others {
		return
	}
	if g.Has(prefix + ".changesets") {
		for i, n := 0, g.listLen(); i < n; i++ {
			o.Changesets = append(o.Changesets, g.Changeset())
		}
	}
	if g.Has(prefix + ".notes") {
		for i, n := 0, g.listLen(); i < n; i++ {
			o.Notes = append(o.Notes, g.Note())
		}
	}
	if g.Has(prefix + ".users") {
		for i, n := 0, g.listLen(); i < n; i++ {
			o.Users = append(o.Users, g.User())
		}
	}
}

// OSM generates an osm.OSM value.
func (g *G) OSM() *osm.OSM {
	g.initPool()
	h := g.header("osm")
	o := &osm.OSM{Version: h.Version, Generator: h.Generator, Copyright: h.Copyright, Attribution: h.Attribution, License: h.License}
	g.body("osm", o, true)
	return o
}

// Change generates an osm.Change value. The blocks carry no header attributes of their own
// (the osmChange format has none on create/modify/delete).
func (g *G) Change() *osm.Change {
	g.initPool()
	h := g.header("change")
	c := &osm.Change{Version: h.Version, Generator: h.Generator, Copyright: h.Copyright, Attribution: h.Attribution, License: h.License}
	for _, a := range []string{"create", "modify", "delete"} {
		if !g.Has("change." + a) {
			continue
		}
		o := &osm.OSM{}
		g.body("change."+a, o, !g.Simple && g.R.Chance(0.15))
		switch a {
		case "create":
			c.Create = o
		case "modify":
			c.Modify = o
		default:
			c.Delete = o
		}
	}
	return c
}

// diffItem generates one action in the augmented-diff shape: create carries the new element,
// modify and delete carry <old> and <new> with one element each.
func (g *G) diffItem() DiffItem {
	var cand []string
	for _, t := range []string{"create", "modify", "delete"} {
		if g.Has("diff.actions." + t) {
			cand = append(cand, t)
		}
	}
	typ := "create"
	if len(cand) > 0 {
		typ = cand[g.R.Intn(len(cand))]
	} else if g.Only == "" {
		typ = g.R.PickS("create", "modify", "delete")
	} else if strings.HasPrefix(g.Only, "diff.actions.container") {
		typ = "modify" // the container features live in old/new
	}
	it := DiffItem{Type: typ}
	kind := ObjectKinds[1+g.R.Intn(3)]
	if typ == "create" {
		it.Elem = g.Object(kind)
		return it
	}
	it.Old = g.Object(kind)
	it.New = g.Object(kind)
	// same object, next version
	switch o := it.Old.(type) {
	case *osm.Node:
		n := it.New.(*osm.Node)
		n.ID, n.Version = o.ID, o.Version+1
		if typ == "delete" {
			n.Visible, n.Lat, n.Lon, n.Tags = false, 0, 0, nil
		}
	case *osm.Way:
		n := it.New.(*osm.Way)
		n.ID, n.Version = o.ID, o.Version+1
		if typ == "delete" {
			n.Visible, n.Nodes, n.Tags = false, nil, nil
		}
	case *osm.Relation:
		n := it.New.(*osm.Relation)
		n.ID, n.Version = o.ID, o.Version+1
		if typ == "delete" {
			n.Visible, n.Members, n.Tags = false, nil, nil
		}
	}
	return it
}

// DiffItems generates the children of an augmented diff's root.
func (g *G) DiffItems() []DiffItem {
	var items []DiffItem
	if g.Has("diff.actions") {
		n := g.listLen()
		if !g.Simple {
			n = g.R.Range(1, 2*g.MaxList)
		}
		for i := 0; i < n; i++ {
			items = append(items, g.diffItem())
		}
	}
	if g.Has("diff.changesets") {
		for i, n := 0, g.listLen(); i < n; i++ {
			items = append(items, DiffItem{Changeset: g.Changeset()})
		}
	}
	return items
}

// Diff generates an osm.Diff value. Create actions hold exactly one element (the documented
// shape). The Old and New containers of modify and delete actions are general osm.OSM
// containers: besides the old/new element they may carry top-level bounds, further elements,
// changesets, notes and users (features diff.actions.container.*); like osmChange blocks they
// carry no header attributes of their own.
func (g *G) Diff() *osm.Diff {
	g.initPool()
	d := &Doc{Kind: "diff", Items: g.DiffItems()}
	df := d.ExpectDiff()
	for i := range df.Actions {
		a := &df.Actions[i]
		if a.Type == osm.ActionCreate {
			continue
		}
		for _, o := range []*osm.OSM{a.Old, a.New} {
			g.container("diff.actions.container", o)
		}
	}
	return df
}

// container adds the parts an osm.OSM can carry besides one element.
func (g *G) container(prefix string, o *osm.OSM) {
	if g.Has(prefix + ".bounds") {
		o.Bounds = g.plainBounds()
	}
	if g.Has(prefix + ".elements") {
		for i, n := 0, g.listLen(); i < n; i++ {
			AddTo(o, g.Element())
		}
	}
	if g.Has(prefix + ".changesets") {
		for i, n := 0, g.listLen(); i < n; i++ {
			o.Changesets = append(o.Changesets, g.Changeset())
		}
	}
	if g.Has(prefix + ".notes") {
		for i, n := 0, g.listLen(); i < n; i++ {
			o.Notes = append(o.Notes, g.Note())
		}
	}
	if g.Has(prefix + ".users") {
		for i, n := 0, g.listLen(); i < n; i++ {
			o.Users = append(o.Users, g.User())
		}
	}
}

// Value generates a value of any kind in Kinds; the result is a pointer.
func (g *G) Value(kind string) any {
	g.initPool()
	switch kind {
	case "osm":
		return g.OSM()
	case "change":
		return g.Change()
	case "diff":
		return g.Diff()
	}
	return g.Object(kind)
}

// Doc generates a document model of the given root kind with objects in arbitrary document
// order: kinds interleaved below <osm>, repeated and interleaved action blocks in an
// osmChange, actions and changesets mixed in a diff.
func (g *G) Doc(kind string, maxObjs int) *Doc {
	g.initPool()
	d := &Doc{Kind: kind}
	switch kind {
	case "osm":
		d.Header = g.header("osm")
		n := g.R.Intn(maxObjs + 1)
		haveBounds := false
		for i := 0; i < n; i++ {
			k := ObjectKinds[g.R.Intn(len(ObjectKinds))]
			if g.R.Chance(0.5) {
				k = ObjectKinds[1+g.R.Intn(3)]
			}
			if k == "bounds" {
				if haveBounds {
					continue
				}
				haveBounds = true
				d.Objects = append(d.Objects, g.plainBounds())
				continue
			}
			d.Objects = append(d.Objects, g.Object(k))
		}
	case "osmChange":
		d.Header = g.header("change")
		nb := g.R.Intn(7)
		haveBounds := map[string]bool{}
		for i := 0; i < nb; i++ {
			b := Block{Action: g.R.PickS("create", "modify", "delete")}
			no := g.R.Intn(maxObjs/2 + 1)
			for j := 0; j < no; j++ {
				switch {
				case g.R.Chance(0.06) && !haveBounds[b.Action]:
					haveBounds[b.Action] = true
					b.Objects = append(b.Objects, g.plainBounds())
				case g.R.Chance(0.08):
					b.Objects = append(b.Objects, g.Object(ObjectKinds[4+g.R.Intn(3)]))
				default:
					b.Objects = append(b.Objects, g.Element())
				}
			}
			d.Blocks = append(d.Blocks, b)
		}
	case "diff":
		d.Header = g.header("osm")
		n := g.R.Intn(maxObjs/2 + 1)
		for i := 0; i < n; i++ {
			if g.R.Chance(0.1) {
				d.Items = append(d.Items, DiffItem{Changeset: g.Changeset()})
			} else {
				d.Items = append(d.Items, g.diffItem())
			}
		}
	}
	return d
}
