// Package pbfw is an independent model of the OSM PBF format and a writer for it, built on
// protowire from the format specification (osmformat.proto / fileformat.proto), never on the
// library's own code. Every optional part of the format is an explicit present/absent bit in
// the model; the objects a correct reader must deliver are derived from the model.
package pbfw

import (
	"time"

	"github.com/paulmach/osm"
)

// File is a whole PBF stream.
type File struct {
	Header *Header // nil: the stream starts with a data block (a resumed stream)
	Blocks []*Block
	// PayloadMut, when set for a block index, rewrites the serialised PrimitiveBlock before it
	// is wrapped into a (consistent) Blob: damage inside the protobuf payload, framing intact.
	PayloadMut map[int]func([]byte) []byte
}

// Header is the OSMHeader block.
type Header struct {
	BBox          *[4]int64 // left, right, top, bottom in nanodegrees
	Required      []string
	Optional      []string
	Program       *string
	Source        *string
	ReplTimestamp *int64
	ReplSeq       *int64
	ReplURL       *string
	Zlib          bool
}

// Block is one OSMData block (PrimitiveBlock).
type Block struct {
	Granularity     *int32
	LatOffset       *int64
	LonOffset       *int64
	DateGranularity *int32
	Zlib            bool
	ZlibLevel       int
	Groups          []*Group
	OrderSeed       uint64   // shuffles the string table and the field order of messages
	ExtraStrings    []string // unused string table entries
	UnknownFields   bool     // sprinkle unknown (skippable) fields
	IndexData       bool     // BlobHeader.indexdata present
	IndexBytes      int      // size of BlobHeader.indexdata (0: three bytes when IndexData is set)
	PadVarint       bool     // BlobHeader.datasize written as a fixed-width (non-minimal) varint
	PadBytes        int      // an unknown (skippable) bytes field of this size pads the PrimitiveBlock
}

// Group kinds.
const (
	KDense = iota
	KWays
	KRelations
)

// Group is one PrimitiveGroup.
type Group struct {
	Kind      int
	Dense     *Dense
	Ways      []*Way
	Relations []*Relation
}

// Dense is a DenseNodes message. The Has* bits say which optional columns are written.
type Dense struct {
	Nodes        []DNode
	HasInfo      bool
	HasVersion   bool
	HasTimestamp bool
	HasChangeset bool
	HasUID       bool
	HasUserSID   bool
	HasVisible   bool
	HasKeyVals   bool
}

// Tag is a key/value pair.
type Tag struct{ K, V string }

// DNode is one row of a DenseNodes message (raw, undelta'd values).
type DNode struct {
	ID        int64
	Lat, Lon  int64 // raw units
	Version   int32
	Timestamp int64 // raw units of date_granularity
	Changeset int64
	UID       int32
	User      string
	Visible   bool
	Tags      []Tag
}

// Info is the optional per-way / per-relation metadata; nil pointers are absent fields.
type Info struct {
	Version   *int32
	Timestamp *int64
	Changeset *int64
	UID       *int32
	User      *string
	Visible   *bool
}

// Way is a Way message.
type Way struct {
	ID      int64
	HasTags bool // keys/vals fields written (possibly empty)
	Tags    []Tag
	Info    *Info
	Refs    []int64
	HasRefs bool
	Lats    []int64 // nil: no locations
	Lons    []int64
	HasLoc  bool
}

// Member is a relation member.
type Member struct {
	Role string
	ID   int64
	Type int32 // 0 node, 1 way, 2 relation
}

// Relation is a Relation message.
type Relation struct {
	ID         int64
	HasTags    bool
	Tags       []Tag
	Info       *Info
	HasMembers bool
	Members    []Member
}

func (b *Block) indexLen() int {
	n := 0
	switch {
	case b.IndexBytes > 0:
		n = b.IndexBytes
	case b.IndexData:
		n = 3
	}
	if b.PadVarint {
		n |= padVarintFlag
	}
	return n
}

func (b *Block) gran() int64 {
	if b.Granularity != nil {
		return int64(*b.Granularity)
	}
	return 100
}

func (b *Block) dateGran() int64 {
	if b.DateGranularity != nil {
		return int64(*b.DateGranularity)
	}
	return 1000
}

func (b *Block) latOff() int64 {
	if b.LatOffset != nil {
		return *b.LatOffset
	}
	return 0
}

func (b *Block) lonOff() int64 {
	if b.LonOffset != nil {
		return *b.LonOffset
	}
	return 0
}

// Expect is one object a correct reader must deliver, with exact coordinates kept as
// integer nanodegrees next to the osm value.
type Expect struct {
	Obj          osm.Object
	Block        int
	HasTimestamp bool
	// exact coordinates in nanodegrees: node -> [lat, lon]; way -> lat, lon per way node
	NanoLat []int64
	NanoLon []int64
}

func mkTime(raw, dateGran int64) time.Time {
	ms := raw * dateGran
	return time.Unix(ms/1000, (ms%1000)*1_000_000).UTC()
}

func nano(v int64) float64 { return float64(v) / 1e9 }

func tagsOf(ts []Tag) osm.Tags {
	if len(ts) == 0 {
		return nil
	}
	out := make(osm.Tags, len(ts))
	for i, t := range ts {
		out[i] = osm.Tag{Key: t.K, Value: t.V}
	}
	return out
}

// ExpectBlock derives the objects block bi encodes, by the format's rules.
func (f *File) ExpectBlock(bi int) []Expect {
	b := f.Blocks[bi]
	var out []Expect
	for _, g := range b.Groups {
		switch g.Kind {
		case KDense:
			d := g.Dense
			for _, n := range d.Nodes {
				la, lo := b.latOff()+b.gran()*n.Lat, b.lonOff()+b.gran()*n.Lon
				o := &osm.Node{ID: osm.NodeID(n.ID), Visible: true, Lat: nano(la), Lon: nano(lo)}
				e := Expect{Block: bi, NanoLat: []int64{la}, NanoLon: []int64{lo}}
				if d.HasInfo {
					if d.HasVersion {
						o.Version = int(n.Version)
					}
					if d.HasTimestamp {
						o.Timestamp = mkTime(n.Timestamp, b.dateGran())
						e.HasTimestamp = true
					}
					if d.HasChangeset {
						o.ChangesetID = osm.ChangesetID(n.Changeset)
					}
					if d.HasUID {
						o.UserID = osm.UserID(n.UID)
					}
					if d.HasUserSID {
						o.User = n.User
					}
					if d.HasVisible {
						o.Visible = n.Visible
					}
				}
				if d.HasKeyVals {
					o.Tags = tagsOf(n.Tags)
				}
				e.Obj = o
				out = append(out, e)
			}
		case KWays:
			for _, w := range g.Ways {
				o := &osm.Way{ID: osm.WayID(w.ID), Visible: true}
				e := Expect{Block: bi}
				applyInfo(w.Info, b, &o.Version, &o.Timestamp, &o.ChangesetID, &o.UserID, &o.User, &o.Visible, &e)
				if w.HasTags {
					o.Tags = tagsOf(w.Tags)
				}
				n := 0
				if w.HasRefs {
					n = len(w.Refs)
				} else if w.HasLoc {
					n = len(w.Lats)
				}
				if n > 0 {
					o.Nodes = make(osm.WayNodes, n)
				}
				for i := 0; i < n; i++ {
					if w.HasRefs {
						o.Nodes[i].ID = osm.NodeID(w.Refs[i])
					}
					if w.HasLoc {
						la, lo := b.latOff()+b.gran()*w.Lats[i], b.lonOff()+b.gran()*w.Lons[i]
						o.Nodes[i].Lat, o.Nodes[i].Lon = nano(la), nano(lo)
						e.NanoLat = append(e.NanoLat, la)
						e.NanoLon = append(e.NanoLon, lo)
					}
				}
				e.Obj = o
				out = append(out, e)
			}
		case KRelations:
			for _, r := range g.Relations {
				o := &osm.Relation{ID: osm.RelationID(r.ID), Visible: true}
				e := Expect{Block: bi}
				applyInfo(r.Info, b, &o.Version, &o.Timestamp, &o.ChangesetID, &o.UserID, &o.User, &o.Visible, &e)
				if r.HasTags {
					o.Tags = tagsOf(r.Tags)
				}
				if r.HasMembers {
					for _, m := range r.Members {
						t := osm.TypeNode
						switch m.Type {
						case 1:
							t = osm.TypeWay
						case 2:
							t = osm.TypeRelation
						}
						o.Members = append(o.Members, osm.Member{Type: t, Ref: m.ID, Role: m.Role})
					}
				}
				e.Obj = o
				out = append(out, e)
			}
		}
	}
	return out
}

func applyInfo(in *Info, b *Block, ver *int, ts *time.Time, cs *osm.ChangesetID, uid *osm.UserID, user *string, vis *bool, e *Expect) {
	if in == nil {
		return
	}
	if in.Version != nil {
		*ver = int(*in.Version)
	}
	if in.Timestamp != nil {
		*ts = mkTime(*in.Timestamp, b.dateGran())
		e.HasTimestamp = true
	}
	if in.Changeset != nil {
		*cs = osm.ChangesetID(*in.Changeset)
	}
	if in.UID != nil {
		*uid = osm.UserID(*in.UID)
	}
	if in.User != nil {
		*user = *in.User
	}
	if in.Visible != nil {
		*vis = *in.Visible
	}
}

// ExpectAll derives the full object sequence of the file.
func (f *File) ExpectAll() []Expect {
	var out []Expect
	for i := range f.Blocks {
		out = append(out, f.ExpectBlock(i)...)
	}
	return out
}

// ExpectedHeader is what Scanner.Header must report for the file's header block.
type ExpectedHeader struct {
	HasBounds                      bool
	MinLon, MaxLon, MinLat, MaxLat int64 // nanodegrees
	Required, Optional             []string
	Program, Source, ReplURL       string
	ReplTimestamp                  *int64
	ReplSeq                        uint64
}

// ExpectHeader derives the header expectation (nil when the file has no header block).
func (f *File) ExpectHeader() *ExpectedHeader {
	h := f.Header
	if h == nil {
		return nil
	}
	e := &ExpectedHeader{Required: h.Required, Optional: h.Optional}
	if h.BBox != nil {
		e.HasBounds = true
		e.MinLon, e.MaxLon, e.MaxLat, e.MinLat = h.BBox[0], h.BBox[1], h.BBox[2], h.BBox[3]
	}
	if h.Program != nil {
		e.Program = *h.Program
	}
	if h.Source != nil {
		e.Source = *h.Source
	}
	if h.ReplURL != nil {
		e.ReplURL = *h.ReplURL
	}
	if h.ReplSeq != nil {
		e.ReplSeq = uint64(*h.ReplSeq)
	}
	e.ReplTimestamp = h.ReplTimestamp
	return e
}
