package pbfw

import (
	"bytes"
	"compress/zlib"
	"encoding/binary"
	"math/rand/v2"

	"google.golang.org/protobuf/encoding/protowire"
)

// Damage describes one deliberate defect applied to one block while writing. The empty
// Kind means an intact block.
type Damage struct {
	Kind string
	Arg  int64
}

// Layout records where each file block landed in the byte stream.
type Layout struct {
	HeaderEnd int64 // end offset of the header block (0 when there is none)
	// HeaderPrefixEnd / HeaderBlobHeaderEnd: as PrefixEnd / BlobHeaderEnd, for the header block
	HeaderPrefixEnd     int64
	HeaderBlobHeaderEnd int64
	Start               []int64 // start offset of data block i
	End                 []int64 // end offset of data block i
	// PrefixEnd / BlobHeaderEnd: offsets just after the 4-byte size prefix and just after
	// the BlobHeader of data block i (the cut points the decoder handles separately).
	PrefixEnd     []int64
	BlobHeaderEnd []int64
}

// Boundaries returns the set of offsets at which a cut leaves a well-formed stream: 0, the
// end of the header block and the end of every data block.
func (l *Layout) Boundaries() map[int64]bool {
	m := map[int64]bool{0: true}
	if l.HeaderEnd > 0 {
		m[l.HeaderEnd] = true
	}
	for _, e := range l.End {
		m[e] = true
	}
	return m
}

type enc struct{ b []byte }

func (e *enc) varint(num protowire.Number, v uint64) {
	e.b = protowire.AppendTag(e.b, num, protowire.VarintType)
	e.b = protowire.AppendVarint(e.b, v)
}
func (e *enc) sint(num protowire.Number, v int64) { e.varint(num, protowire.EncodeZigZag(v)) }
func (e *enc) bytes(num protowire.Number, v []byte) {
	e.b = protowire.AppendTag(e.b, num, protowire.BytesType)
	e.b = protowire.AppendBytes(e.b, v)
}
func (e *enc) str(num protowire.Number, s string) { e.bytes(num, []byte(s)) }
// PackMode selects how repeated scalar fields are written: 0 packed in one chunk (what every
// real writer does), 1 unpacked (one tag per value), 2 packed but split into two chunks. All
// three are the same message to a conforming protobuf parser. Experimental, see DESIGN §12.
var PackMode int

func (e *enc) packedVar(num protowire.Number, vs []uint64) {
	switch {
	case PackMode == 1:
		for _, v := range vs {
			e.varint(num, v)
		}
		return
	case PackMode == 2 && len(vs) > 1:
		h := len(vs) / 2
		for _, part := range [][]uint64{vs[:h], vs[h:]} {
			var p []byte
			for _, v := range part {
				p = protowire.AppendVarint(p, v)
			}
			e.bytes(num, p)
		}
		return
	}
	var p []byte
	for _, v := range vs {
		p = protowire.AppendVarint(p, v)
	}
	e.bytes(num, p)
}
func (e *enc) packedSint(num protowire.Number, vs []int64) {
	us := make([]uint64, len(vs))
	for i, v := range vs {
		us[i] = protowire.EncodeZigZag(v)
	}
	e.packedVar(num, us)
}

func delta(vs []int64) []int64 {
	out := make([]int64, len(vs))
	var prev int64
	for i, v := range vs {
		out[i] = v - prev
		prev = v
	}
	return out
}

// strtab builds the block's string table: index 0 is the reserved blank entry, every other
// string gets an index >= 1 in an order decided by the block's OrderSeed.
type strtab struct {
	idx   map[string]uint32
	list  []string
	blank uint32 // a second, non-zero entry holding "" (used where index 0 is a delimiter)
}

func (b *Block) buildStrtab() *strtab {
	set := map[string]bool{}
	var order []string
	add := func(s string) {
		if s != "" && !set[s] {
			set[s] = true
			order = append(order, s)
		}
	}
	needBlank := false
	for _, g := range b.Groups {
		switch g.Kind {
		case KDense:
			for _, n := range g.Dense.Nodes {
				add(n.User)
				for _, t := range n.Tags {
					add(t.K)
					add(t.V)
					if t.K == "" || t.V == "" {
						needBlank = true
					}
				}
			}
		case KWays:
			for _, w := range g.Ways {
				if w.Info != nil && w.Info.User != nil {
					add(*w.Info.User)
				}
				for _, t := range w.Tags {
					add(t.K)
					add(t.V)
				}
			}
		case KRelations:
			for _, r := range g.Relations {
				if r.Info != nil && r.Info.User != nil {
					add(*r.Info.User)
				}
				for _, t := range r.Tags {
					add(t.K)
					add(t.V)
				}
				for _, m := range r.Members {
					add(m.Role)
				}
			}
		}
	}
	for _, s := range b.ExtraStrings {
		add(s)
	}
	rng := rand.New(rand.NewPCG(b.OrderSeed, 77))
	rng.Shuffle(len(order), func(i, j int) { order[i], order[j] = order[j], order[i] })
	st := &strtab{idx: map[string]uint32{}, list: []string{""}}
	for _, s := range order {
		st.idx[s] = uint32(len(st.list))
		st.list = append(st.list, s)
	}
	if needBlank {
		st.blank = uint32(len(st.list))
		st.list = append(st.list, "")
	}
	return st
}

func (st *strtab) of(s string) uint32 {
	if s == "" {
		return 0
	}
	return st.idx[s]
}

// ofNZ never returns 0 (for the dense keys_vals array where 0 is the node delimiter).
func (st *strtab) ofNZ(s string) uint32 {
	if s == "" {
		return st.blank
	}
	return st.idx[s]
}

func b2u(b bool) uint64 {
	if b {
		return 1
	}
	return 0
}

type field struct {
	body func(e *enc)
}

func emit(e *enc, rng *rand.Rand, shuffle bool, fs []field) {
	if shuffle {
		rng.Shuffle(len(fs), func(i, j int) { fs[i], fs[j] = fs[j], fs[i] })
	}
	for _, f := range fs {
		f.body(e)
	}
}

func encInfo(in *Info, st *strtab, dmg Damage, oob uint64, unk bool) []byte {
	var e enc
	if unk {
		e.varint(40, 9)
		e.str(41, "ext")
	}
	if in.Version != nil {
		e.varint(1, uint64(int64(*in.Version)))
	}
	if in.Timestamp != nil {
		e.varint(2, uint64(*in.Timestamp))
	}
	if in.Changeset != nil {
		e.varint(3, uint64(*in.Changeset))
	}
	if in.UID != nil {
		e.varint(4, uint64(int64(*in.UID)))
	}
	if in.User != nil {
		sid := uint64(st.of(*in.User))
		if oob != 0 {
			sid = oob
		}
		e.varint(5, sid)
	} else if oob != 0 {
		e.varint(5, oob)
	}
	if in.Visible != nil {
		e.varint(6, b2u(*in.Visible))
	}
	return e.b
}

// EncodePrimitiveBlock serialises the block's PrimitiveBlock message.
func (b *Block) EncodePrimitiveBlock(dmg Damage) []byte {
	st := b.buildStrtab()
	rng := rand.New(rand.NewPCG(b.OrderSeed, 99))
	shuffle := b.OrderSeed%3 != 0 // a third of the blocks keep canonical field order
	oobIdx := uint64(len(st.list)) + uint64(dmg.Arg)
	if dmg.Arg >= 1<<31 {
		oobIdx = uint64(dmg.Arg) // absolute index (bit 31 set: negative when read as int32)
	}

	var fs []field
	// string table (a required field: leaving it out makes every string reference dangle)
	if dmg.Kind != "missing-stringtable" {
		fs = append(fs, field{func(e *enc) {
			var t enc
			for _, s := range st.list {
				t.str(1, s)
			}
			e.bytes(1, t.b)
		}})
	}
	if b.Granularity != nil {
		fs = append(fs, field{func(e *enc) { e.varint(17, uint64(int64(*b.Granularity))) }})
	}
	if b.DateGranularity != nil {
		fs = append(fs, field{func(e *enc) { e.varint(18, uint64(int64(*b.DateGranularity))) }})
	}
	if b.LatOffset != nil {
		fs = append(fs, field{func(e *enc) { e.varint(19, uint64(*b.LatOffset)) }})
	}
	if b.LonOffset != nil {
		fs = append(fs, field{func(e *enc) { e.varint(20, uint64(*b.LonOffset)) }})
	}
	if b.PadBytes > 0 {
		fs = append(fs, field{func(e *enc) { e.bytes(95, make([]byte, b.PadBytes)) }})
	}
	if b.UnknownFields {
		fs = append(fs, field{func(e *enc) { e.varint(90, 12345) }})
		fs = append(fs, field{func(e *enc) { e.str(91, "future extension") }})
	}
	// groups keep their relative order: they are emitted by one field that is placed at a
	// shuffled position, so parameters may come before or after them.
	groupsField := field{func(e *enc) {
		for gi, g := range b.Groups {
			e.bytes(2, b.encGroup(g, gi, st, rng, shuffle, dmg, oobIdx))
		}
	}}
	fs = append(fs, groupsField)
	var e enc
	emit(&e, rng, shuffle, fs)
	return e.b
}

func (b *Block) encGroup(g *Group, gi int, st *strtab, rng *rand.Rand, shuffle bool, dmg Damage, oob uint64) []byte {
	var e enc
	hitGroup := dmg.Arg2Group(gi)
	if dmg.Kind == "plain-node-group" && hitGroup {
		// a plain (non-dense) Node message: id, lat, lon
		var n enc
		n.sint(1, 1)
		n.sint(8, 1)
		n.sint(9, 1)
		e.bytes(1, n.b)
	}
	if b.UnknownFields {
		e.varint(77, 1)
	}
	switch g.Kind {
	case KDense:
		e.bytes(2, b.encDense(g.Dense, st, rng, shuffle, dmg, hitGroup, oob))
	case KWays:
		for wi, w := range g.Ways {
			e.bytes(3, b.encWay(w, st, rng, shuffle, dmg, hitGroup && wi == len(g.Ways)/2, oob))
		}
	case KRelations:
		for ri, r := range g.Relations {
			e.bytes(4, b.encRelation(r, st, rng, shuffle, dmg, hitGroup && ri == len(g.Relations)/2, oob))
		}
	}
	return e.b
}

// Arg2Group: structural damages hit the first group of the matching kind; encGroup passes
// whether this group index is the damaged one. The choice is made by the caller through
// Damage.Arg for kinds that need it; by default every group of the right kind qualifies and
// the encoder applies the damage to the first opportunity only.
func (d Damage) Arg2Group(gi int) bool { return d.Kind != "" }

func (b *Block) encDense(d *Dense, st *strtab, rng *rand.Rand, shuffle bool, dmg Damage, hit bool, oob uint64) []byte {
	n := len(d.Nodes)
	ids, lats, lons := make([]int64, n), make([]int64, n), make([]int64, n)
	for i, x := range d.Nodes {
		ids[i], lats[i], lons[i] = x.ID, x.Lat, x.Lon
	}
	short := func(vs []int64, which string) []int64 {
		if hit && dmg.Kind == "dense-short-"+which && len(vs) > 0 {
			return vs[:len(vs)-1]
		}
		return vs
	}
	var fs []field
	if !(hit && dmg.Kind == "dense-missing-ids") {
		fs = append(fs, field{func(e *enc) { e.packedSint(1, delta(ids)) }})
	}
	if !(hit && dmg.Kind == "dense-missing-lat") {
		fs = append(fs, field{func(e *enc) { e.packedSint(8, short(delta(lats), "lat")) }})
	}
	if !(hit && dmg.Kind == "dense-missing-lon") {
		fs = append(fs, field{func(e *enc) { e.packedSint(9, short(delta(lons), "lon")) }})
	}
	if d.HasInfo {
		fs = append(fs, field{func(e *enc) {
			var in enc
			var ifs []field
			if d.HasVersion {
				vs := make([]uint64, n)
				for i, x := range d.Nodes {
					vs[i] = uint64(int64(x.Version))
				}
				if hit && dmg.Kind == "dense-short-version" && n > 0 {
					vs = vs[:n-1]
				}
				ifs = append(ifs, field{func(e *enc) { e.packedVar(1, vs) }})
			}
			col := func(num protowire.Number, get func(DNode) int64, which string) {
				vs := make([]int64, n)
				for i, x := range d.Nodes {
					vs[i] = get(x)
				}
				dv := short(delta(vs), which)
				ifs = append(ifs, field{func(e *enc) { e.packedSint(num, dv) }})
			}
			if d.HasTimestamp {
				col(2, func(x DNode) int64 { return x.Timestamp }, "timestamp")
			}
			if d.HasChangeset {
				col(3, func(x DNode) int64 { return x.Changeset }, "changeset")
			}
			if d.HasUID {
				col(4, func(x DNode) int64 { return int64(x.UID) }, "uid")
			}
			if d.HasUserSID {
				vs := make([]int64, n)
				for i, x := range d.Nodes {
					vs[i] = int64(st.of(x.User))
				}
				if hit && dmg.Kind == "oob-dense-user" && n > 0 {
					vs[n/2] = int64(oob)
				}
				dv := short(delta(vs), "usersid")
				ifs = append(ifs, field{func(e *enc) { e.packedSint(5, dv) }})
			}
			if d.HasVisible {
				vs := make([]uint64, n)
				for i, x := range d.Nodes {
					vs[i] = b2u(x.Visible)
				}
				if hit && dmg.Kind == "dense-short-visible" && n > 0 {
					vs = vs[:n-1]
				}
				ifs = append(ifs, field{func(e *enc) { e.packedVar(6, vs) }})
			}
			if b.UnknownFields {
				ifs = append(ifs, field{func(e *enc) { e.varint(33, 1) }})
			}
			emit(&in, rng, shuffle, ifs)
			e.bytes(5, in.b)
		}})
	}
	if d.HasKeyVals {
		fs = append(fs, field{func(e *enc) {
			var kv []uint64
			for i, x := range d.Nodes {
				for ti, t := range x.Tags {
					k, v := uint64(st.ofNZ(t.K)), uint64(st.ofNZ(t.V))
					if hit && dmg.Kind == "oob-dense-keyvals" && i == n/2 && ti == 0 {
						v = oob
					}
					kv = append(kv, k, v)
				}
				if hit && dmg.Kind == "oob-dense-keyvals" && i == n/2 && len(x.Tags) == 0 {
					kv = append(kv, oob, oob)
				}
				kv = append(kv, 0)
			}
			if hit && dmg.Kind == "dense-short-keyvals" && len(kv) > 0 {
				// drop the delimiters of the last two nodes: the array ends early
				kv = kv[:len(kv)-1]
				for len(kv) > 0 && kv[len(kv)-1] != 0 {
					kv = kv[:len(kv)-1]
				}
				if len(kv) > 0 {
					kv = kv[:len(kv)-1]
				}
			}
			e.packedVar(10, kv)
		}})
	}
	if b.UnknownFields {
		fs = append(fs, field{func(e *enc) { e.varint(60, 7) }})
	}
	var e enc
	emit(&e, rng, shuffle, fs)
	return e.b
}

func tagCols(ts []Tag, st *strtab) (ks, vs []uint64) {
	for _, t := range ts {
		ks = append(ks, uint64(st.of(t.K)))
		vs = append(vs, uint64(st.of(t.V)))
	}
	return
}

func (b *Block) encWay(w *Way, st *strtab, rng *rand.Rand, shuffle bool, dmg Damage, hit bool, oob uint64) []byte {
	var fs []field
	fs = append(fs, field{func(e *enc) { e.varint(1, uint64(w.ID)) }})
	if w.HasTags || (hit && (dmg.Kind == "oob-way-key" || dmg.Kind == "oob-way-val")) {
		ks, vs := tagCols(w.Tags, st)
		if hit && dmg.Kind == "oob-way-key" {
			ks, vs = append(ks, oob), append(vs, 0)
		}
		if hit && dmg.Kind == "oob-way-val" {
			ks, vs = append(ks, 0), append(vs, oob)
		}
		if hit && dmg.Kind == "way-short-vals" && len(vs) > 0 {
			vs = vs[:len(vs)-1]
		}
		fs = append(fs, field{func(e *enc) { e.packedVar(2, ks) }})
		fs = append(fs, field{func(e *enc) { e.packedVar(3, vs) }})
	}
	if w.Info != nil || (hit && dmg.Kind == "oob-way-user") {
		in := w.Info
		if in == nil {
			in = &Info{}
		}
		var o uint64
		if hit && dmg.Kind == "oob-way-user" {
			o = oob
		}
		fs = append(fs, field{func(e *enc) { e.bytes(4, encInfo(in, st, dmg, o, b.UnknownFields)) }})
	}
	if w.HasRefs {
		fs = append(fs, field{func(e *enc) { e.packedSint(8, delta(w.Refs)) }})
	}
	if w.HasLoc || (hit && dmg.Kind == "way-long-latlon") {
		lats, lons := w.Lats, w.Lons
		if hit && dmg.Kind == "way-long-latlon" {
			lats = append(append([]int64{}, lats...), 1, 2)
			lons = append(append([]int64{}, lons...), 1, 2)
			for len(lats) <= len(w.Refs) {
				lats, lons = append(lats, 3), append(lons, 3)
			}
		}
		fs = append(fs, field{func(e *enc) { e.packedSint(9, delta(lats)) }})
		fs = append(fs, field{func(e *enc) { e.packedSint(10, delta(lons)) }})
	}
	if b.UnknownFields {
		fs = append(fs, field{func(e *enc) { e.str(55, "x") }})
	}
	var e enc
	// refs must precede lat/lon only by convention; the format allows any order
	emit(&e, rng, shuffle, fs)
	return e.b
}

func (b *Block) encRelation(r *Relation, st *strtab, rng *rand.Rand, shuffle bool, dmg Damage, hit bool, oob uint64) []byte {
	var fs []field
	fs = append(fs, field{func(e *enc) { e.varint(1, uint64(r.ID)) }})
	if r.HasTags || (hit && (dmg.Kind == "oob-rel-key" || dmg.Kind == "oob-rel-val")) {
		ks, vs := tagCols(r.Tags, st)
		if hit && dmg.Kind == "oob-rel-key" {
			ks, vs = append(ks, oob), append(vs, 0)
		}
		if hit && dmg.Kind == "oob-rel-val" {
			ks, vs = append(ks, 0), append(vs, oob)
		}
		if hit && dmg.Kind == "rel-short-vals" && len(vs) > 0 {
			vs = vs[:len(vs)-1]
		}
		fs = append(fs, field{func(e *enc) { e.packedVar(2, ks) }})
		fs = append(fs, field{func(e *enc) { e.packedVar(3, vs) }})
	}
	if r.Info != nil || (hit && dmg.Kind == "oob-rel-user") {
		in := r.Info
		if in == nil {
			in = &Info{}
		}
		var o uint64
		if hit && dmg.Kind == "oob-rel-user" {
			o = oob
		}
		fs = append(fs, field{func(e *enc) { e.bytes(4, encInfo(in, st, dmg, o, b.UnknownFields)) }})
	}
	if r.HasMembers || (hit && (dmg.Kind == "oob-rel-role" || dmg.Kind == "rel-roles-long")) {
		roles := make([]uint64, len(r.Members))
		ids := make([]int64, len(r.Members))
		types := make([]uint64, len(r.Members))
		for i, m := range r.Members {
			roles[i], ids[i], types[i] = uint64(st.of(m.Role)), m.ID, uint64(m.Type)
		}
		if hit && dmg.Kind == "oob-rel-role" {
			roles, ids, types = append(roles, oob), append(ids, 5), append(types, 0)
		}
		dids := delta(ids)
		if hit && dmg.Kind == "rel-roles-long" {
			roles = append(roles, 0, 0) // more roles than types and memids
		}
		if hit && dmg.Kind == "rel-short-memids" && len(dids) > 0 {
			dids = dids[:len(dids)-1]
		}
		if hit && dmg.Kind == "rel-short-types" && len(types) > 0 {
			types = types[:len(types)-1]
		}
		fs = append(fs, field{func(e *enc) { e.packedVar(8, roles) }})
		fs = append(fs, field{func(e *enc) { e.packedSint(9, dids) }})
		fs = append(fs, field{func(e *enc) { e.packedVar(10, types) }})
	}
	if b.UnknownFields {
		fs = append(fs, field{func(e *enc) { e.str(56, "y") }})
	}
	var e enc
	emit(&e, rng, shuffle, fs)
	return e.b
}

// EncodeHeaderBlock serialises the HeaderBlock message.
func (h *Header) EncodeHeaderBlock() []byte {
	var e enc
	if h.BBox != nil {
		var bb enc
		bb.sint(1, h.BBox[0])
		bb.sint(2, h.BBox[1])
		bb.sint(3, h.BBox[2])
		bb.sint(4, h.BBox[3])
		e.bytes(1, bb.b)
	}
	for _, s := range h.Required {
		e.str(4, s)
	}
	for _, s := range h.Optional {
		e.str(5, s)
	}
	if h.Program != nil {
		e.str(16, *h.Program)
	}
	if h.Source != nil {
		e.str(17, *h.Source)
	}
	if h.ReplTimestamp != nil {
		e.varint(32, uint64(*h.ReplTimestamp))
	}
	if h.ReplSeq != nil {
		e.varint(33, uint64(*h.ReplSeq))
	}
	if h.ReplURL != nil {
		e.str(34, *h.ReplURL)
	}
	return e.b
}

const padVarintFlag = 1 << 30

func deflate(data []byte, level int) []byte {
	var buf bytes.Buffer
	w, _ := zlib.NewWriterLevel(&buf, level)
	w.Write(data)
	w.Close()
	return buf.Bytes()
}

// EncodeFileBlock wraps a payload as size prefix + BlobHeader + Blob, applying file-level
// damage. It returns the bytes and the offsets (relative to the start of the block) just
// after the size prefix and just after the BlobHeader.
func EncodeFileBlock(typ string, payload []byte, useZlib bool, level int, indexLen int, dmg Damage) (out []byte, prefixEnd, hdrEnd int) {
	padVarint := indexLen&padVarintFlag != 0
	indexLen &^= padVarintFlag
	var blob enc
	switch {
	case dmg.Kind == "unknown-encoding":
		blob.bytes(4, payload) // lzma_data: a reader without lzma support cannot decode it
		blob.varint(2, uint64(len(payload)))
	case dmg.Kind == "empty-blob":
		// neither raw nor zlib_data
		blob.varint(2, uint64(len(payload)))
	case useZlib || dmg.Kind == "bad-zlib-header" || dmg.Kind == "corrupt-zlib" || dmg.Kind == "bad-adler" || dmg.Kind == "rawsize-plus" || dmg.Kind == "rawsize-minus" || dmg.Kind == "rawsize-abs" || dmg.Kind == "zlib-truncated" || dmg.Kind == "zlib-trailing" || dmg.Kind == "zlib-trailer-cut":
		switch level {
		case 0:
			level = zlib.DefaultCompression
		case -1:
			level = zlib.NoCompression // stored deflate blocks
		case -2:
			level = zlib.HuffmanOnly
		}
		z := deflate(payload, level)
		rs := int64(len(payload))
		switch dmg.Kind {
		case "corrupt-zlib":
			// break the deflate stream itself (after the 2-byte zlib header)
			for i := 2; i < len(z)-4 && i < 2+8; i++ {
				z[i] ^= 0xFF
			}
		case "bad-zlib-header":
			z[0], z[1] = 0x00, 0x00 // not a zlib stream at all
		case "bad-adler":
			z[len(z)-1] ^= 0x5A
		case "zlib-truncated":
			// cut inside the deflate data, also when there is hardly any (an empty payload
			// deflates to two bytes): losing only the checksum trailer is zlib-trailer-cut
			cut := len(z) / 2
			if cut > len(z)-5 {
				cut = len(z) - 5
			}
			z = z[:cut]
		case "zlib-trailing":
			// bytes after the end of the zlib stream, inside zlib_data
			z = append(z, bytes.Repeat([]byte{0x5a, 0x00, 0xff}, int(dmg.Arg)/3+1)[:dmg.Arg]...)
		case "zlib-trailer-cut":
			// the stream ends inside its 4-byte checksum trailer
			z = z[:len(z)-int(dmg.Arg)]
		case "rawsize-plus":
			rs++
		case "rawsize-minus":
			rs--
		case "rawsize-abs":
			// a declared uncompressed size unrelated to the data (raw_size is an int32 field)
			rs = int64(int32(dmg.Arg))
			if rs == int64(len(payload)) {
				// the "unrelated" size happens to be the true one (0 for a header block without
				// any field): that would be no damage at all
				rs++
			}
		}
		blob.varint(2, uint64(rs))
		blob.bytes(3, z)
	default:
		blob.bytes(1, payload)
		if level == -1 {
			// raw_size is optional for every blob, also for an uncompressed one
			blob.varint(2, uint64(len(payload)))
		}
	}
	blobBytes := blob.b
	if dmg.Kind == "garbage-blob" {
		blobBytes = bytes.Repeat([]byte{0xFF}, 40)
	}

	var hdr enc
	if dmg.Kind == "block-type" {
		typ = []string{"OSMHeader", "OSMFuture", ""}[dmg.Arg%3]
	}
	hdr.str(1, typ)
	if indexLen > 0 {
		hdr.bytes(2, bytes.Repeat([]byte{1, 2, 3}, indexLen/3+1)[:indexLen])
	}
	ds := int64(len(blobBytes))
	switch dmg.Kind {
	case "datasize-huge":
		ds = 32*1024*1024 + dmg.Arg
	case "datasize-negative":
		ds = -1 - dmg.Arg
	}
	if padVarint && ds >= 0 {
		// a writer that reserves room and patches the size in afterwards: the same number as
		// a fixed-width, non-minimal varint (five bytes), which every protobuf parser accepts
		hdr.b = protowire.AppendTag(hdr.b, 3, protowire.VarintType)
		v := uint64(ds)
		for i := 0; i < 4; i++ {
			hdr.b = append(hdr.b, byte(v&0x7f)|0x80)
			v >>= 7
		}
		hdr.b = append(hdr.b, byte(v&0x7f))
	} else {
		hdr.varint(3, uint64(int64(int32(ds))))
	}
	hdrBytes := hdr.b
	if dmg.Kind == "garbage-blobheader" {
		hdrBytes = bytes.Repeat([]byte{0xFF}, 12)
	}

	size := uint32(len(hdrBytes))
	switch dmg.Kind {
	case "headersize-64k":
		size = 64 * 1024
	case "headersize-max":
		size = 0xFFFFFFFF
	}
	out = binary.BigEndian.AppendUint32(nil, size)
	prefixEnd = len(out)
	out = append(out, hdrBytes...)
	hdrEnd = len(out)
	out = append(out, blobBytes...)
	return out, prefixEnd, hdrEnd
}

// Encode writes the whole stream. dmg maps a data block index to the damage applied to it;
// index -1 addresses the header block.
func (f *File) Encode(dmg map[int]Damage) ([]byte, *Layout) {
	var out []byte
	lay := &Layout{}
	if f.Header != nil {
		d := dmg[-1]
		h := f.Header
		if d.Kind == "required-feature" {
			hc := *h
			hc.Required = append(append([]string{}, h.Required...), "FutureFeature-V9")
			h = &hc
		}
		hp := h.EncodeHeaderBlock()
		if d.Kind == "garbage-headerblock" {
			hp = bytes.Repeat([]byte{0xFF}, 24) // a well-formed blob whose payload is not a HeaderBlock
		}
		fb, pe, he := EncodeFileBlock("OSMHeader", hp, h.Zlib, 0, 0, d)
		lay.HeaderPrefixEnd, lay.HeaderBlobHeaderEnd = int64(pe), int64(he)
		out = append(out, fb...)
		lay.HeaderEnd = int64(len(out))
	}
	for i, b := range f.Blocks {
		d := dmg[i]
		payload := b.EncodePrimitiveBlock(d)
		if d.Kind == "garbage-primitiveblock" {
			payload = bytes.Repeat([]byte{0xFF}, 30)
		}
		if mut := f.PayloadMut[i]; mut != nil {
			payload = mut(payload)
		}
		fb, pe, he := EncodeFileBlock("OSMData", payload, b.Zlib, b.ZlibLevel, b.indexLen(), d)
		start := int64(len(out))
		lay.Start = append(lay.Start, start)
		lay.PrefixEnd = append(lay.PrefixEnd, start+int64(pe))
		lay.BlobHeaderEnd = append(lay.BlobHeaderEnd, start+int64(he))
		out = append(out, fb...)
		lay.End = append(lay.End, int64(len(out)))
	}
	return out, lay
}
