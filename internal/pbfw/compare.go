package pbfw

import (
	"fmt"
	"math"
	"time"

	"github.com/paulmach/osm"
	"github.com/paulmach/osm/osmpbf"

	"verif/internal/eq"
)

const coordTolNano = 0.1000001 // 1e-10 degrees, in nanodegrees (plus float slack)

func coordOK(got float64, wantNano int64) bool {
	return math.Abs(got*1e9-float64(wantNano)) <= coordTolNano
}

func normTime(t time.Time, has bool) time.Time {
	// an absent timestamp may be reported as Go's zero time or as the Unix epoch
	if !has && (t.IsZero() || t.Equal(time.Unix(0, 0))) {
		return time.Time{}
	}
	return t
}

// Compare checks one delivered object against its expectation, field for field;
// coordinates within 1e-10 degrees of the exact value. It returns "" when equal.
func Compare(want Expect, got osm.Object) string {
	if got == nil {
		return "got nil object"
	}
	switch w := want.Obj.(type) {
	case *osm.Node:
		g, ok := got.(*osm.Node)
		if !ok {
			return fmt.Sprintf("want node %d, got %T", w.ID, got)
		}
		if !coordOK(g.Lat, want.NanoLat[0]) || !coordOK(g.Lon, want.NanoLon[0]) {
			return fmt.Sprintf("node %d coordinates (%.12f,%.12f) differ from exact (%d,%d) nanodegrees", w.ID, g.Lat, g.Lon, want.NanoLat[0], want.NanoLon[0])
		}
		gc := *g
		gc.Lat, gc.Lon = w.Lat, w.Lon
		gc.Timestamp = normTime(gc.Timestamp, want.HasTimestamp)
		if a, b := eq.Dump(w), eq.Dump(&gc); a != b {
			return "node differs " + eq.Diff(a, b)
		}
	case *osm.Way:
		g, ok := got.(*osm.Way)
		if !ok {
			return fmt.Sprintf("want way %d, got %T", w.ID, got)
		}
		gc := *g
		gc.Nodes = append(osm.WayNodes(nil), g.Nodes...)
		if len(gc.Nodes) != len(w.Nodes) {
			return fmt.Sprintf("way %d has %d nodes, want %d", w.ID, len(gc.Nodes), len(w.Nodes))
		}
		for i := range gc.Nodes {
			if len(want.NanoLat) > 0 {
				if !coordOK(gc.Nodes[i].Lat, want.NanoLat[i]) || !coordOK(gc.Nodes[i].Lon, want.NanoLon[i]) {
					return fmt.Sprintf("way %d node %d coordinates (%.12f,%.12f) differ from exact (%d,%d)", w.ID, i, gc.Nodes[i].Lat, gc.Nodes[i].Lon, want.NanoLat[i], want.NanoLon[i])
				}
				gc.Nodes[i].Lat, gc.Nodes[i].Lon = w.Nodes[i].Lat, w.Nodes[i].Lon
			}
		}
		gc.Timestamp = normTime(gc.Timestamp, want.HasTimestamp)
		if a, b := eq.Dump(w), eq.Dump(&gc); a != b {
			return "way differs " + eq.Diff(a, b)
		}
	case *osm.Relation:
		g, ok := got.(*osm.Relation)
		if !ok {
			return fmt.Sprintf("want relation %d, got %T", w.ID, got)
		}
		gc := *g
		gc.Timestamp = normTime(gc.Timestamp, want.HasTimestamp)
		if a, b := eq.Dump(w), eq.Dump(&gc); a != b {
			return "relation differs " + eq.Diff(a, b)
		}
	}
	return ""
}

// CompareSeq checks a delivered sequence against the expected one; "" when equal.
func CompareSeq(want []Expect, got []osm.Object) string {
	n := len(want)
	if len(got) < n {
		n = len(got)
	}
	for i := 0; i < n; i++ {
		if d := Compare(want[i], got[i]); d != "" {
			return fmt.Sprintf("object #%d (block %d): %s", i, want[i].Block, d)
		}
	}
	if len(got) != len(want) {
		return fmt.Sprintf("delivered %d objects, want %d", len(got), len(want))
	}
	return ""
}

func strsEq(a, b []string) bool {
	if len(a) != len(b) {
		return false
	}
	for i := range a {
		if a[i] != b[i] {
			return false
		}
	}
	return true
}

// CompareHeader checks Scanner.Header() against the expectation; "" when equal.
func CompareHeader(want *ExpectedHeader, got *osmpbf.Header) string {
	if want == nil {
		if got != nil {
			return "file has no header block but Header() is non-nil"
		}
		return ""
	}
	if got == nil {
		return "Header() is nil"
	}
	if want.HasBounds {
		if got.Bounds == nil {
			return "header bounds missing"
		}
		b := got.Bounds
		if !coordOK(b.MinLon, want.MinLon) || !coordOK(b.MaxLon, want.MaxLon) || !coordOK(b.MinLat, want.MinLat) || !coordOK(b.MaxLat, want.MaxLat) {
			return fmt.Sprintf("header bounds %+v differ from nanodegrees left=%d right=%d top=%d bottom=%d", *b, want.MinLon, want.MaxLon, want.MaxLat, want.MinLat)
		}
	} else if got.Bounds != nil {
		return "header has no bbox but Bounds is set"
	}
	if !strsEq(want.Required, got.RequiredFeatures) {
		return fmt.Sprintf("required features %v want %v", got.RequiredFeatures, want.Required)
	}
	if !strsEq(want.Optional, got.OptionalFeatures) {
		return fmt.Sprintf("optional features %v want %v", got.OptionalFeatures, want.Optional)
	}
	if want.Program != got.WritingProgram || want.Source != got.Source || want.ReplURL != got.ReplicationBaseURL {
		return fmt.Sprintf("header strings (%q,%q,%q) want (%q,%q,%q)", got.WritingProgram, got.Source, got.ReplicationBaseURL, want.Program, want.Source, want.ReplURL)
	}
	if want.ReplSeq != got.ReplicationSeqNum {
		return fmt.Sprintf("replication seq %d want %d", got.ReplicationSeqNum, want.ReplSeq)
	}
	if want.ReplTimestamp != nil {
		if !got.ReplicationTimestamp.Equal(time.Unix(*want.ReplTimestamp, 0)) {
			return fmt.Sprintf("replication timestamp %v want %d", got.ReplicationTimestamp, *want.ReplTimestamp)
		}
	} else if !got.ReplicationTimestamp.IsZero() && !got.ReplicationTimestamp.Equal(time.Unix(0, 0)) {
		return fmt.Sprintf("replication timestamp %v but none in header", got.ReplicationTimestamp)
	}
	return ""
}
