package pbfw

import (
	"fmt"
	"strings"

	"verif/internal/gen"
)

// GenOpts steers the random file generator.
type GenOpts struct {
	MinBlocks, MaxBlocks int
	MaxGroups            int
	MaxElems             int // per group
	NoHeader             bool
	Plain                bool // "real-file like": all metadata present, defaults everywhere
	Full                 bool // every optional part present with non-default values (systematic toggles strip parts from it)
	SmallStrings         bool
	OnlyKinds            []int   // restrict group kinds
	ZeroP                float64 // probability that a present optional numeric part carries the value 0 (boundary: present-but-zero)
}

func p32(v int32) *int32    { return &v }
func p64(v int64) *int64    { return &v }
func pstr(s string) *string { return &s }
func pbool(b bool) *bool    { return &b }

// idCounter hands out ids that are unique within a file so that a swapped or duplicated
// element is always visible.
type idCounter struct{ n, w, rel int64 }

func (c *idCounter) next(r *gen.R) int64 {
	c.n += int64(r.Range(1, 50))
	return c.n
}

// nextWay / nextRel: ids are unique within a kind only, as in OSM itself: node 7, way 7 and
// relation 7 are three different elements that happen to share a number.
func (c *idCounter) nextWay(r *gen.R) int64 {
	c.w += int64(r.Range(1, 50))
	return c.w
}

func (c *idCounter) nextRel(r *gen.R) int64 {
	c.rel += int64(r.Range(1, 50))
	return c.rel
}

// genUID: contributors recur across blocks; a small pool makes the same uid show up with
// different display names in different blocks (contributors rename), which is valid data.
func genUID(r *gen.R) int32 {
	if r.Chance(0.4) {
		return int32(r.Range(1, 6))
	}
	return int32(r.Range(1, 1<<24))
}

// pbfOnly are string fragments only the PBF format can carry as they are (its strings are
// byte strings): control characters, right-to-left and combining sequences, byte order marks,
// bytes that are not valid UTF-8. A reader hands them on untouched.
var pbfOnly = []string{
	"\x00", "\x01\x1f", "\x7f", "\t\r\n", "\u200f\u05e9\u05dc\u05d5\u05dd", "\u0645\u0631\u062d\u0628\u0627", "e\u0301a\u0308\u0323",
	"\ufeff", "\u202e", "\xff\xfe", "\xc3", "\x80\xbf", "\xed\xa0\x80", "\xf8\x88\x80\x80\x80",
}

func genStr(r *gen.R, o GenOpts) string {
	if o.SmallStrings {
		return r.Word()
	}
	if r.Chance(0.5) {
		return r.Word()
	}
	s := r.Str(12)
	if !o.Plain && r.Chance(0.08) {
		f := pbfOnly[r.Intn(len(pbfOnly))]
		i := r.Intn(len(s) + 1)
		for i > 0 && i < len(s) && s[i]&0xC0 == 0x80 {
			i-- // insert at a rune boundary of the valid part
		}
		s = s[:i] + f + s[i:]
	}
	return s
}

func genTags(r *gen.R, o GenOpts, allowEmpty bool) []Tag {
	n := 0
	switch {
	case r.Chance(0.35):
		n = 0
	case r.Chance(0.8):
		n = r.Range(1, 3)
	default:
		n = r.Range(4, 12)
	}
	var ts []Tag
	for i := 0; i < n; i++ {
		k := genStr(r, o)
		if k == "" && !allowEmpty {
			k = "k"
		}
		if k == "" {
			k = "e" // keys are never empty (index 0 is the blank entry)
		}
		v := genStr(r, o)
		ts = append(ts, Tag{k, v})
	}
	return ts
}

// GenBlockParams fills granularity / offsets / date granularity.
func GenBlockParams(r *gen.R, b *Block, o GenOpts) {
	if o.Plain {
		return
	}
	if r.Chance(0.6) {
		b.Granularity = p32(int32(r.Pick(1, 10, 100, 1000, 12345)))
	}
	if r.Chance(0.5) {
		b.DateGranularity = p32(int32(r.Pick(1, 500, 1000, 60000)))
	}
	if r.Chance(0.4) {
		b.LatOffset = p64(r.Int64Range(-5_000_000_000, 5_000_000_000))
	}
	if r.Chance(0.4) {
		b.LonOffset = p64(r.Int64Range(-5_000_000_000, 5_000_000_000))
	}
}

func rawCoord(r *gen.R, limNano int64, off, gran int64) int64 {
	target := r.Int64Range(-limNano, limNano)
	return (target - off) / gran
}

func rawTime(r *gen.R, dateGran int64) int64 {
	ms := r.Int64Range(1104537600000, 1893456000000)
	v := ms / dateGran
	if v < 1 {
		v = 1
	}
	return v
}

func genInfo(r *gen.R, b *Block, o GenOpts) *Info {
	if !o.Plain && !o.Full && r.Chance(0.2) {
		return nil
	}
	in := &Info{}
	all := o.Plain || o.Full || r.Chance(0.4)
	if all || r.Bool() {
		in.Version = p32(int32(r.Range(1, 400)))
	}
	if all || r.Bool() {
		in.Timestamp = p64(rawTime(r, b.dateGran()))
	}
	if all || r.Bool() {
		in.Changeset = p64(r.Int64Range(1, 1<<33))
	}
	if all || r.Bool() {
		in.UID = p32(genUID(r))
	}
	if all || r.Bool() {
		u := genStr(r, o)
		if o.Full && u == "" {
			u = "u" + r.Word()
		}
		in.User = pstr(u)
	}
	if o.Full || (!o.Plain && r.Bool()) {
		in.Visible = pbool(r.Chance(0.5))
	}
	if o.ZeroP > 0 {
		if in.Version != nil && r.Chance(o.ZeroP) {
			in.Version = p32(0)
		}
		if in.Timestamp != nil && r.Chance(o.ZeroP) {
			in.Timestamp = p64(0)
		}
		if in.Changeset != nil && r.Chance(o.ZeroP) {
			in.Changeset = p64(0)
		}
		if in.UID != nil && r.Chance(o.ZeroP) {
			in.UID = p32(0)
		}
	}
	return in
}

// GenGroup makes one group of the given kind with n elements.
func GenGroup(r *gen.R, b *Block, kind, n int, ids *idCounter, o GenOpts) *Group {
	g := &Group{Kind: kind}
	switch kind {
	case KDense:
		if n < 1 {
			n = 1
		}
		d := &Dense{}
		if o.Plain || o.Full {
			d.HasInfo, d.HasVersion, d.HasTimestamp, d.HasChangeset, d.HasUID, d.HasUserSID, d.HasKeyVals = true, true, true, true, true, true, true
			d.HasVisible = o.Full
		} else {
			d.HasInfo = r.Chance(0.8)
			if d.HasInfo {
				all := r.Chance(0.35)
				d.HasVersion = all || r.Bool()
				d.HasTimestamp = all || r.Bool()
				d.HasChangeset = all || r.Bool()
				d.HasUID = all || r.Bool()
				d.HasUserSID = all || r.Bool()
				d.HasVisible = r.Bool()
			}
			d.HasKeyVals = r.Chance(0.75)
		}
		for i := 0; i < n; i++ {
			x := DNode{ID: ids.next(r), Visible: true}
			if !o.Plain && r.Chance(0.03) {
				x.ID = -x.ID
			}
			x.Lat = rawCoord(r, 90_000_000_000, b.latOff(), b.gran())
			x.Lon = rawCoord(r, 180_000_000_000, b.lonOff(), b.gran())
			if d.HasVersion {
				x.Version = int32(r.Range(1, 300))
			}
			if d.HasTimestamp {
				x.Timestamp = rawTime(r, b.dateGran())
			}
			if d.HasChangeset {
				x.Changeset = r.Int64Range(1, 1<<33)
			}
			if d.HasUID {
				x.UID = genUID(r)
			}
			if d.HasUserSID {
				x.User = genStr(r, o)
				if o.Full && x.User == "" {
					x.User = "u" + r.Word()
				}
			}
			if d.HasVisible {
				x.Visible = r.Chance(0.5)
			}
			if o.ZeroP > 0 {
				if r.Chance(o.ZeroP) {
					x.Version = 0
				}
				if r.Chance(o.ZeroP) {
					x.Timestamp = 0
				}
				if r.Chance(o.ZeroP) {
					x.Changeset = 0
				}
				if r.Chance(o.ZeroP) {
					x.UID = 0
				}
				if r.Chance(o.ZeroP) {
					x.Lat, x.Lon = 0, 0
				}
			}
			if d.HasKeyVals {
				x.Tags = genTags(r, o, false)
				if o.Full && len(x.Tags) == 0 {
					x.Tags = []Tag{{"k" + r.Word(), "v" + r.Word()}}
				}
				// runs of identically tagged nodes (a row of trees, the posts of a fence):
				// equal tag lists must still be separate lists
				if !o.Full && len(d.Nodes) > 0 && len(d.Nodes[len(d.Nodes)-1].Tags) > 0 && r.Chance(0.3) {
					x.Tags = append([]Tag(nil), d.Nodes[len(d.Nodes)-1].Tags...)
				}
			}
			d.Nodes = append(d.Nodes, x)
		}
		g.Dense = d
	case KWays:
		for i := 0; i < n; i++ {
			w := &Way{ID: ids.nextWay(r)}
			w.Info = genInfo(r, b, o)
			if o.Plain || o.Full || r.Chance(0.8) {
				w.HasTags = true
				w.Tags = genTags(r, o, true)
				if o.Full && len(w.Tags) == 0 {
					w.Tags = []Tag{{"k" + r.Word(), "v" + r.Word()}}
				}
			}
			nrefs := 0
			switch {
			case o.Full:
				nrefs = r.Range(2, 9)
			case r.Chance(0.1):
				nrefs = 0
			case r.Chance(0.85):
				nrefs = r.Range(1, 12)
			case !o.Plain && r.Chance(0.15):
				// ref counts at the sizes code likes to special-case
				nrefs = r.Pick(63, 64, 65, 127, 128, 129, 255, 256, 257, 511, 512, 513, 1024)
			default:
				nrefs = r.Range(13, 120)
			}
			if nrefs > 0 || r.Bool() {
				w.HasRefs = true
				w.Refs = make([]int64, nrefs)
				for j := range w.Refs {
					w.Refs[j] = r.Int64Range(1, 1<<34)
					if j > 0 && r.Chance(0.5) {
						w.Refs[j] = w.Refs[j-1] + int64(r.Range(-3, 3))
					}
				}
			}
			if !o.Plain && nrefs > 0 && (o.Full || r.Chance(0.4)) {
				w.HasLoc = true
				w.Lats, w.Lons = make([]int64, nrefs), make([]int64, nrefs)
				for j := 0; j < nrefs; j++ {
					w.Lats[j] = rawCoord(r, 90_000_000_000, b.latOff(), b.gran())
					w.Lons[j] = rawCoord(r, 180_000_000_000, b.lonOff(), b.gran())
				}
			}
			g.Ways = append(g.Ways, w)
		}
	case KRelations:
		for i := 0; i < n; i++ {
			rel := &Relation{ID: ids.nextRel(r)}
			rel.Info = genInfo(r, b, o)
			if o.Plain || o.Full || r.Chance(0.8) {
				rel.HasTags = true
				rel.Tags = genTags(r, o, true)
				if o.Full && len(rel.Tags) == 0 {
					rel.Tags = []Tag{{"k" + r.Word(), "v" + r.Word()}}
				}
			}
			nm := 0
			switch {
			case o.Full:
				nm = r.Range(1, 6)
			case r.Chance(0.12):
				nm = 0
			case r.Chance(0.85):
				nm = r.Range(1, 8)
			default:
				nm = r.Range(9, 60)
			}
			if nm > 0 || r.Bool() {
				rel.HasMembers = true
				for j := 0; j < nm; j++ {
					role := ""
					if r.Chance(0.6) {
						role = genStr(r, o)
					}
					if o.Full && role == "" {
						role = "r" + r.Word()
					}
					rel.Members = append(rel.Members, Member{Role: role, ID: r.Int64Range(1, 1<<34), Type: int32(r.Intn(3))})
				}
			}
			g.Relations = append(g.Relations, rel)
		}
	}
	return g
}

// GenHeader makes a header block with random optional parts.
func GenHeader(r *gen.R, o GenOpts) *Header {
	h := &Header{Zlib: r.Bool()}
	full := o.Plain || r.Chance(0.3)
	if full || r.Bool() {
		h.BBox = &[4]int64{r.Int64Range(-180e9, 0), r.Int64Range(0, 180e9), r.Int64Range(0, 90e9), r.Int64Range(-90e9, 0)}
		if r.Bool() {
			// the four corners are independent numbers: a box inside one hemisphere, a box
			// crossing the antimeridian (left > right), bottom above top; reported as written
			h.BBox = &[4]int64{r.Int64Range(-180e9, 180e9), r.Int64Range(-180e9, 180e9), r.Int64Range(-90e9, 90e9), r.Int64Range(-90e9, 90e9)}
		}
	}
	if full || r.Bool() {
		h.Required = []string{"OsmSchema-V0.6", "DenseNodes"}
		if r.Bool() {
			h.Required = append(h.Required, "HistoricalInformation")
		}
		if r.Chance(0.2) {
			h.Required = h.Required[:1]
		}
	}
	if full || r.Bool() {
		h.Optional = []string{"Has_Metadata", "Sort.Type_then_ID"}[:r.Range(1, 2)]
	}
	if full || r.Bool() {
		h.Program = pstr("verif-" + r.Word())
	}
	if full || r.Bool() {
		h.Source = pstr(genStr(r, o))
	}
	if full || r.Bool() {
		h.ReplTimestamp = p64(r.Int64Range(1104537600, 1893456000))
		if r.Chance(o.ZeroP) {
			h.ReplTimestamp = p64(0) // present with value 0: the epoch, not "absent"
		}
	}
	if full || r.Bool() {
		h.ReplSeq = p64(r.Int64Range(1, 1<<40))
		if r.Chance(o.ZeroP) {
			h.ReplSeq = p64(0)
		}
	}
	if full || r.Bool() {
		h.ReplURL = pstr("https://planet.example.org/replication/" + r.Word())
	}
	return h
}

// GenFile makes a random valid file.
func GenFile(r *gen.R, o GenOpts) *File {
	f := &File{}
	if !o.NoHeader {
		f.Header = GenHeader(r, o)
	}
	ids := &idCounter{}
	nb := r.Range(o.MinBlocks, o.MaxBlocks)
	kinds := o.OnlyKinds
	if len(kinds) == 0 {
		kinds = []int{KDense, KWays, KRelations}
	}
	for i := 0; i < nb; i++ {
		b := &Block{Zlib: r.Chance(0.7), OrderSeed: r.Uint64()}
		if b.Zlib {
			b.ZlibLevel = r.Pick(1, 6, 9)
			if !o.Plain && r.Chance(0.25) {
				b.ZlibLevel = r.Pick(-1, -2) // stored blocks, Huffman-only
			}
		} else if !o.Plain && r.Chance(0.3) {
			b.ZlibLevel = -1 // raw blob that also states its raw_size
		}
		if !o.Plain {
			b.UnknownFields = r.Chance(0.2)
			b.IndexData = r.Chance(0.2)
			b.PadVarint = r.Chance(0.15)
			if r.Chance(0.3) {
				b.ExtraStrings = []string{"unused-" + r.Word(), r.Str(6)}
			}
		}
		GenBlockParams(r, b, o)
		ng := r.Range(1, max1(o.MaxGroups))
		for g := 0; g < ng; g++ {
			kind := kinds[r.Intn(len(kinds))]
			n := r.Range(0, o.MaxElems)
			b.Groups = append(b.Groups, GenGroup(r, b, kind, n, ids, o))
		}
		f.Blocks = append(f.Blocks, b)
	}
	return f
}

func max1(v int) int {
	if v < 1 {
		return 1
	}
	return v
}

// Signature is the feature vector of a block: presence bits and parameter classes.
func (b *Block) Signature() string {
	var sb strings.Builder
	bit := func(c bool, s string) {
		if c {
			sb.WriteString(s)
		}
	}
	bit(b.Granularity != nil, fmt.Sprintf("g%d", b.gran()))
	bit(b.DateGranularity != nil, fmt.Sprintf("d%d", b.dateGran()))
	bit(b.LatOffset != nil, "la")
	bit(b.LonOffset != nil, "lo")
	bit(b.Zlib, "z")
	bit(b.UnknownFields, "u")
	for _, g := range b.Groups {
		switch g.Kind {
		case KDense:
			d := g.Dense
			sb.WriteString("|D")
			bit(d.HasInfo, "i")
			bit(d.HasVersion, "v")
			bit(d.HasTimestamp, "t")
			bit(d.HasChangeset, "c")
			bit(d.HasUID, "u")
			bit(d.HasUserSID, "s")
			bit(d.HasVisible, "V")
			bit(d.HasKeyVals, "k")
		case KWays:
			sb.WriteString("|W")
			var info, tags, loc, empty bool
			for _, w := range g.Ways {
				info = info || w.Info != nil
				tags = tags || w.HasTags
				loc = loc || w.HasLoc
				empty = empty || len(w.Refs) == 0
			}
			bit(info, "i")
			bit(tags, "t")
			bit(loc, "l")
			bit(empty, "e")
		case KRelations:
			sb.WriteString("|R")
			var info, tags, mem, empty bool
			for _, r := range g.Relations {
				info = info || r.Info != nil
				tags = tags || r.HasTags
				mem = mem || r.HasMembers
				empty = empty || len(r.Members) == 0
			}
			bit(info, "i")
			bit(tags, "t")
			bit(mem, "m")
			bit(empty, "e")
		}
	}
	return sb.String()
}

// NumObjects counts the objects of a block.
func (b *Block) NumObjects() int {
	n := 0
	for _, g := range b.Groups {
		switch g.Kind {
		case KDense:
			n += len(g.Dense.Nodes)
		case KWays:
			n += len(g.Ways)
		case KRelations:
			n += len(g.Relations)
		}
	}
	return n
}

// GenGroupIDs is GenGroup with the id counter held by the caller.
func GenGroupIDs(r *gen.R, b *Block, kind, n int, counter *int64, o GenOpts) *Group {
	c := &idCounter{n: *counter, w: *counter, rel: *counter}
	g := GenGroup(r, b, kind, n, c, o)
	for _, v := range []int64{c.n, c.w, c.rel} {
		if v > *counter {
			*counter = v
		}
	}
	return g
}

// Wilden rewrites, with probability p per element, values of a generated file into the
// unusual-but-valid corners of the format: ids that are zero, negative, beyond 2^40, equal to
// or below their predecessor (history files, unsorted files), metadata at the ends of their
// integer types, very long strings, duplicate tag keys, long tag / ref / member lists. Ids are
// no longer unique afterwards, so it is for checks that compare by position only.
func Wilden(r *gen.R, f *File, p float64) {
	wildID := func(prev int64) int64 {
		switch r.Intn(8) {
		case 0:
			return 0
		case 1:
			return -int64(r.Range(1, 1<<20))
		case 2:
			return 1<<40 + int64(r.Range(0, 1000))
		case 3:
			return 1<<62 + int64(r.Range(0, 1000))
		case 4:
			return prev // the same element again (another version of it)
		case 5:
			return prev - int64(r.Range(1, 1000)) // unsorted
		case 6:
			return -(1 << 62)
		}
		return int64(r.Range(1, 3))
	}
	longStr := func() string {
		n := r.Pick(300, 4000, 70000)
		unit := r.StrNonEmpty(6) // arbitrary UTF-8; the result is cut at a rune boundary
		var sb strings.Builder
		for sb.Len()+len(unit) <= n {
			sb.WriteString(unit)
		}
		return sb.String()
	}
	wildTags := func(ts []Tag) []Tag {
		switch r.Intn(4) {
		case 0:
			return append(ts, Tag{"note", longStr()})
		case 1:
			k := "dup" + r.Word()
			return append(ts, Tag{k, "first"}, Tag{k, "second"}, Tag{k, "first"})
		case 2:
			for i := 0; i < 300; i++ {
				ts = append(ts, Tag{fmt.Sprintf("k%d", i), r.Word()})
			}
			return ts
		}
		return append(ts, Tag{"empty-value", ""}, Tag{" ", " "})
	}
	wildInfo := func(in *Info) {
		if in == nil {
			return
		}
		if in.Version != nil {
			*in.Version = int32(r.Pick(65535, 65536, 1<<31-1))
		}
		if in.UID != nil {
			*in.UID = int32(r.Pick(-1, 0, 1<<31-1))
		}
		if in.Changeset != nil {
			*in.Changeset = int64(1)<<uint(r.Pick(31, 32, 40, 62)) + int64(r.Intn(3))
		}
		if in.User != nil && r.Chance(0.3) {
			*in.User = longStr()
		}
	}
	for _, b := range f.Blocks {
		for _, g := range b.Groups {
			switch g.Kind {
			case KDense:
				var prev int64
				for i := range g.Dense.Nodes {
					x := &g.Dense.Nodes[i]
					if r.Chance(p) {
						x.ID = wildID(prev)
						if g.Dense.HasVersion {
							x.Version = int32(r.Pick(65535, 65536, 1<<31-1))
						}
						if g.Dense.HasUID {
							x.UID = int32(r.Pick(-1, 0, 1<<31-1))
						}
						if g.Dense.HasChangeset {
							x.Changeset = int64(1)<<uint(r.Pick(31, 32, 40, 62)) + int64(r.Intn(3))
						}
						if g.Dense.HasKeyVals && r.Chance(0.5) {
							x.Tags = wildTags(x.Tags)
						}
						if g.Dense.HasUserSID && r.Chance(0.2) {
							x.User = longStr()
						}
					}
					prev = x.ID
				}
			case KWays:
				var prev int64
				for _, w := range g.Ways {
					if r.Chance(p) {
						w.ID = wildID(prev)
						wildInfo(w.Info)
						if w.HasTags && r.Chance(0.5) {
							w.Tags = wildTags(w.Tags)
						}
						if w.HasRefs && len(w.Refs) > 0 && !w.HasLoc {
							switch r.Intn(3) {
							case 0:
								for j := range w.Refs {
									w.Refs[j] = wildID(int64(j))
								}
							case 1:
								w.Refs = make([]int64, 2000)
								for j := range w.Refs {
									w.Refs[j] = int64(1)<<33 - int64(j)*int64(r.Range(1, 5))
								}
							default:
								for j := range w.Refs {
									w.Refs[j] = w.Refs[0] // a way through one node again and again
								}
							}
						}
					}
					prev = w.ID
				}
			case KRelations:
				var prev int64
				for _, rel := range g.Relations {
					if r.Chance(p) {
						rel.ID = wildID(prev)
						wildInfo(rel.Info)
						if rel.HasTags && r.Chance(0.5) {
							rel.Tags = wildTags(rel.Tags)
						}
						if rel.HasMembers {
							switch r.Intn(3) {
							case 0:
								for j := range rel.Members {
									rel.Members[j].ID = wildID(int64(j))
								}
							case 1:
								for j := 0; j < 3000; j++ {
									rel.Members = append(rel.Members, Member{Role: []string{"", "outer", "inner"}[j%3], ID: int64(j) * 7 % 1000, Type: int32(j % 3)})
								}
							default:
								if len(rel.Members) > 0 {
									rel.Members[0].Role = longStr()
									rel.Members = append(rel.Members, rel.Members[0], rel.Members[0])
								}
							}
						}
					}
					prev = rel.ID
				}
			}
		}
	}
}

// TwinBlocks follows every block of f by a twin: a block of exactly the same structure (same
// counts, same presence bits, same string lengths, same table size and order seed) whose
// values all differ — or, every third time, by an exact copy. Anything a reader carries over
// from one block to the next because "it looks the same" (a table cached by size, a column
// reused because lengths match) shows up as a value of the wrong twin.
func TwinBlocks(r *gen.R, f *File, clone func(*Block) *Block) {
	rot := func(s string) string {
		rs := []rune(s)
		for i, c := range rs {
			switch {
			case c >= 'a' && c < 'z', c >= 'A' && c < 'Z', c >= '0' && c < '9':
				rs[i] = c + 1
			case c == 'z':
				rs[i] = 'a'
			case c == 'Z':
				rs[i] = 'A'
			case c == '9':
				rs[i] = '0'
			}
		}
		return string(rs)
	}
	tags := func(ts []Tag) {
		for i := range ts {
			ts[i].K, ts[i].V = rot(ts[i].K), rot(ts[i].V)
		}
	}
	info := func(in *Info) {
		if in == nil {
			return
		}
		if in.Version != nil {
			*in.Version++
		}
		if in.Timestamp != nil {
			*in.Timestamp++
		}
		if in.Changeset != nil {
			*in.Changeset++
		}
		if in.UID != nil {
			*in.UID++
		}
		if in.User != nil {
			*in.User = rot(*in.User)
		}
		if in.Visible != nil {
			*in.Visible = !*in.Visible
		}
	}
	var out []*Block
	for i, b := range f.Blocks {
		out = append(out, b)
		t := clone(b)
		if i%3 != 2 {
			for j := range t.ExtraStrings {
				t.ExtraStrings[j] = rot(t.ExtraStrings[j])
			}
			for _, g := range t.Groups {
				switch g.Kind {
				case KDense:
					for k := range g.Dense.Nodes {
						x := &g.Dense.Nodes[k]
						x.ID += 1_000_000
						x.Lat++
						x.Lon--
						x.Version++
						x.Timestamp++
						x.Changeset++
						x.UID++
						x.User = rot(x.User)
						x.Visible = !x.Visible
						tags(x.Tags)
					}
				case KWays:
					for _, w := range g.Ways {
						w.ID += 1_000_000
						info(w.Info)
						tags(w.Tags)
						for k := range w.Refs {
							w.Refs[k] += 3
						}
						for k := range w.Lats {
							w.Lats[k]++
							w.Lons[k]--
						}
					}
				case KRelations:
					for _, rel := range g.Relations {
						rel.ID += 1_000_000
						info(rel.Info)
						tags(rel.Tags)
						for k := range rel.Members {
							rel.Members[k].ID += 5
							rel.Members[k].Role = rot(rel.Members[k].Role)
							rel.Members[k].Type = (rel.Members[k].Type + 1) % 3
						}
					}
				}
			}
		}
		out = append(out, t)
	}
	f.Blocks = out
}
