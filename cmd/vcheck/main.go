// vcheck is the single binary behind every check in /verif.
//
//	vcheck run <id> --tier quick|thorough     supervisor (shards cases over child processes)
//	vcheck child ...                          executes cases (started by the supervisor)
//	vcheck replay <file>                      re-executes the case of a replay file
//	vcheck variants <id> <tier>               build variants the tier needs
//	vcheck list                               registered property ids
package main

import (
	"flag"
	"fmt"
	"os"
	"strconv"
	"strings"

	"verif/internal/fw"
	_ "verif/internal/props"
)

func seedFromEnv() uint64 {
	if s := os.Getenv("VERIF_SEED"); s != "" {
		if n, err := strconv.ParseInt(s, 10, 64); err == nil {
			return uint64(n)
		}
	}
	return 1
}

func main() {
	if len(os.Args) < 2 {
		fmt.Fprintln(os.Stderr, "usage: vcheck run|child|replay|variants|list ...")
		os.Exit(2)
	}
	switch os.Args[1] {
	case "list":
		fmt.Println(strings.Join(fw.IDs(), "\n"))
	case "variants":
		p := fw.Lookup(os.Args[2])
		if p == nil {
			fmt.Fprintln(os.Stderr, "unknown property")
			os.Exit(2)
		}
		fmt.Println(strings.Join(fw.VariantsOf(p, os.Args[3], seedFromEnv()), " "))
	case "run":
		fs := flag.NewFlagSet("run", flag.ExitOnError)
		tier := fs.String("tier", "quick", "quick|thorough")
		id := os.Args[2]
		fs.Parse(os.Args[3:])
		os.Exit(fw.RunMain(id, *tier, seedFromEnv()))
	case "child":
		fs := flag.NewFlagSet("child", flag.ExitOnError)
		prop := fs.String("prop", "", "")
		tier := fs.String("tier", "quick", "")
		seed := fs.Uint64("seed", 1, "")
		cases := fs.String("cases", "", "")
		out := fs.String("out", "", "")
		fs.Parse(os.Args[2:])
		os.Exit(fw.ChildMain(*prop, *tier, *seed, *cases, *out))
	case "replay":
		os.Exit(fw.ReplayMain(os.Args[2]))
	case "cold":
		os.Exit(fw.ColdMain(os.Args[2], os.Args[3], os.Args[4]))
	default:
		fmt.Fprintln(os.Stderr, "unknown command", os.Args[1])
		os.Exit(2)
	}
}
