#!/usr/bin/env python3
"""validate.py — schema-check MANIFEST.json and every evidence file (uses the tooling venv)."""
import json, sys, glob, os
import jsonschema
root = os.path.dirname(os.path.abspath(__file__))
ok = True
ms = json.load(open('/root/.vp/MANIFEST.schema.json'))
es = json.load(open('/root/.vp/EVIDENCE.schema.json'))
try:
    m = json.load(open(os.path.join(root, 'MANIFEST.json')))
    jsonschema.validate(m, ms)
    print('MANIFEST.json valid;', len(m['checks']), 'checks,', len(m.get('not_applicable', [])), 'not applicable')
except Exception as e:
    ok = False
    print('MANIFEST invalid:', e)
for f in sorted(glob.glob(os.path.join(root, 'evidence', '*.json'))):
    try:
        jsonschema.validate(json.load(open(f)), es)
        print(os.path.basename(f), 'valid')
    except Exception as e:
        ok = False
        print(os.path.basename(f), 'INVALID:', str(e)[:300])
sys.exit(0 if ok else 1)
